/* C-interface twin of engine_driver.cpp: interprets the SAME scenario language on the build engine, but only through
 * the public libllbuild C interface (llbuild/llbuild.h -> core.h) and prints the SAME event lines.
 *
 * usage: capi_driver <scenario> [<workdir>]
 *
 * Supported scenario lines (see engine_driver.cpp): name, rule (obs= req= follow= br= disc=), set, db, schema, restart,
 * build <k> [sched=sync|defer:<seed>|mixed:<seed>|threads:<seed>], fresh <k>.
 * What the C interface cannot express is answered with a line "UNSUPPORTED <feature>" (the generator must avoid it):
 *   rule sig=<n != 0> (llb_rule_t has no signature), single= (no requestSingleUse), cancel= (no cancelBuild),
 *   recreate 0 (llb_buildengine_attach_db always recreates).
 * Events that need a C++-only callback/accessor are never printed: need (determinedRuleNeedsToRun), prior
 * (providePriorValue), epoch (getCurrentEpoch), deps (dumpGraphToFile), waitgraph.
 * Extra lines of this driver (ignored by engine_driver.cpp, which skips unknown scenario lines):
 *   force <k> <0|1>     task k completes with force_change = <b>
 *   idbase <n>          input ids passed to llb_buildengine_task_needs_input are n + slot (events print id - n)
 *   ids <k> <a,b,...>   rule k passes input id a for slot 0, b for slot 1, ... (decimal; remaining slots: idbase + slot); events print the slot
 *   rulekey <0|1>       1: lookup_rule fills llb_rule_t.key with a key different from the one looked up (the binding ignores it)
 *   shape <k> <n>       the value rule k completes with: 0 the 16-byte encoding, 1 EMPTY (length 0), 2 one byte, 3 all NUL (1..20 bytes),
 *                       4 4096 bytes; validret <k> <0|1>: is_result_valid of rule k answers (stamp still current) && <b>;
 *   hexvalues 1         print values as hex ("EMPTY" for length 0), `valid` lines carry the value shown to is_result_valid, inputs of any
 *                       shape are read as (length, hash of bytes).  C++ twin for these lines: capi_twin.cpp (engine_driver has fixed values)
 *   keykinds            print the table of the BuildKey C API (buildkey.h): one line per public key kind
 *                       "keykind <kind> ident=<llb_build_key_identifier_for_kind> back=<llb_build_key_kind_for_identifier of it>
 *                        first=<first byte of a key made by llb_build_key_make_* for that kind | -> getkind=<llb_build_key_get_kind of it | ->"
 * Extra output lines: "status <k> <kind>" (update_status callback), "dbsnap <n>" (copy of the database file after build n
 * in <workdir>/snap-<n>.db, dumped by the Python side), and with env CAPI_TRACE=1 "raw ..." lines carrying the exact bytes
 * of every C call / callback argument.  "BAD-..." lines report a broken pass-through that has no C++ counterpart: a callback
 * received another engine_context / rule pointer than the registered one, or a destroy_context callback did not run exactly once.
 */
#define _GNU_SOURCE
#include <llbuild/llbuild.h>
#include <stdio.h>
#include <stdlib.h>
#include <string.h>
#include <stdint.h>
#include <stdarg.h>
#include <pthread.h>
#include <unistd.h>

/* guarded notification points of the engine (LLBUILD_VERIF builds only); weak: absent in a plain build */
extern void (*llbuild_verif_engine_hook)(int point, const void* data) __attribute__((weak));

#define MAXK 1024
#define MAXL 64

typedef struct { int n; int v[MAXL]; } IntList;
typedef struct {
  uint64_t sig; int obs; IntList req, single, follow, brA, brB, disc; int brslot; int defined;
} RuleDef;
static void def_init(RuleDef* d) { memset(d, 0, sizeof *d); d->obs = 1; d->brslot = -1; }

static RuleDef g_pending[MAXK], g_defs[MAXK], g_saved[MAXK], g_default;
static uint64_t g_env[MAXK];
static unsigned char* g_name[MAXK]; static size_t g_namelen[MAXK]; static int g_hasname[MAXK];
static int g_force[MAXK], g_shape[MAXK], g_validret[MAXK], g_hex = 0;
#define MAXV 4096
static uint64_t g_idbase = 0;
#define MAXIDS 16
static uint64_t g_ids[MAXK][MAXIDS]; static int g_nids[MAXK];
static int g_rulekey = 0;
static pthread_mutex_t g_out = PTHREAD_MUTEX_INITIALIZER;
static int g_quiet = 0, g_in_build = 0, g_trace = 0;
static char g_freshval[MAXK][48]; static int g_hasfresh[MAXK];      /* fresh: 16-byte values only */
static int g_ctx_magic_a = 0x11, g_ctx_magic_b = 0x22;
static void* g_cur_ctx = NULL;

/* ---- names */
static llb_data_t kname(int k, char* buf /* >= 32 bytes */) {
  llb_data_t d;
  if (k >= 0 && k < MAXK && g_hasname[k]) { d.length = g_namelen[k]; d.data = g_name[k]; return d; }
  snprintf(buf, 32, "k%d", k);
  d.length = strlen(buf); d.data = (const uint8_t*)buf; return d;
}
static int kid(const uint8_t* s, uint64_t n) {
  for (int i = 0; i < MAXK; i++)
    if (g_hasname[i] && g_namelen[i] == n && (n == 0 || memcmp(g_name[i], s, n) == 0)) return i;
  if (n > 1 && s[0] == 'k') { char b[32]; size_t m = n - 1 < 31 ? n - 1 : 31; memcpy(b, s + 1, m); b[m] = 0; return atoi(b); }
  return -1;
}
static RuleDef* def(int k) {
  if (k >= 0 && k < MAXK) return &g_defs[k];
  def_init(&g_default); return &g_default;
}
static uint64_t env(int k) { return (k >= 0 && k < MAXK) ? g_env[k] : 0; }

/* ---- task arithmetic (identical to engine_driver.cpp) */
static const uint64_t M = 1000003ULL;
static uint64_t mix(uint64_t h, uint64_t x) { h ^= x + 0x9e3779b97f4a7c15ULL + (h << 6) + (h >> 2); return h % M; }
typedef struct { int empty; uint64_t p, s; } Val;
static void enc(uint64_t p, uint64_t s, uint8_t* r) { for (int i = 0; i < 8; i++) { r[i] = (p >> (8 * i)) & 0xff; r[8 + i] = (s >> (8 * i)) & 0xff; } }
static Val dec(const uint8_t* v, uint64_t n) {
  Val r; r.empty = 1; r.p = r.s = 0;
  if (n != 16) {
    if (g_hex) { r.p = n; for (uint64_t i = 0; i < n; i++) r.s = mix(r.s, v[i]); }     /* any shape: (length, hash of the bytes) */
    return r;
  }
  r.empty = 0;
  for (int i = 0; i < 8; i++) { r.p |= (uint64_t)v[i] << (8 * i); r.s |= (uint64_t)v[8 + i] << (8 * i); }
  return r;
}
static void vs(const uint8_t* v, uint64_t n, char* out /* >= 2 * MAXV + 48 */) {
  if (n == 0) { strcpy(out, "EMPTY"); return; }
  if (g_hex) {
    static const char* d = "0123456789abcdef"; if (n > MAXV + 16) n = MAXV + 16;
    for (uint64_t i = 0; i < n; i++) { out[2 * i] = d[v[i] >> 4]; out[2 * i + 1] = d[v[i] & 15]; }
    out[2 * n] = 0; return;
  }
  Val x = dec(v, n);
  if (x.empty) { snprintf(out, 48, "BAD%llu", (unsigned long long)n); return; }
  snprintf(out, 48, "%llu.%llu", (unsigned long long)x.p, (unsigned long long)x.s);
}

static void ev(const char* fmt, ...) {
  if (g_quiet) return;
  pthread_mutex_lock(&g_out);
  if (!g_in_build) fputs("LATE-CALLBACK ", stdout);
  va_list ap; va_start(ap, fmt); vprintf(fmt, ap); va_end(ap); fputc('\n', stdout);
  pthread_mutex_unlock(&g_out);
}
static void hexs(const uint8_t* p, uint64_t n, char** out) {
  if (n == 0) { *out = strdup("-"); return; }
  char* r = malloc(2 * n + 1); static const char* d = "0123456789abcdef";
  for (uint64_t i = 0; i < n; i++) { r[2 * i] = d[p[i] >> 4]; r[2 * i + 1] = d[p[i] & 15]; }
  r[2 * n] = 0; *out = r;
}
/* raw <what> <fields...>: exact bytes of the C arguments, only with CAPI_TRACE=1 */
static void raw(const char* what, int k, const llb_data_t* d, const char* fmt, ...) {
  if (!g_trace || g_quiet) return;
  char* h = NULL; if (d) hexs(d->data, d->length, &h);
  pthread_mutex_lock(&g_out);
  printf("raw %s %d %s", what, k, d ? h : ".");
  if (fmt) { fputc(' ', stdout); va_list ap; va_start(ap, fmt); vprintf(fmt, ap); va_end(ap); }
  fputc('\n', stdout);
  pthread_mutex_unlock(&g_out);
  free(h);
}

/* ---- std::mt19937 (the schedules draw the same numbers as engine_driver.cpp) */
static uint32_t mt[624]; static int mti = 625;
static void mt_seed(uint32_t s) { mt[0] = s; for (mti = 1; mti < 624; mti++) mt[mti] = 1812433253U * (mt[mti - 1] ^ (mt[mti - 1] >> 30)) + (uint32_t)mti; }
static uint64_t mt_next(void) {
  if (mti >= 624) {
    if (mti == 625) mt_seed(5489U);
    int kk; uint32_t y;
    for (kk = 0; kk < 624 - 397; kk++) { y = (mt[kk] & 0x80000000U) | (mt[kk + 1] & 0x7fffffffU); mt[kk] = mt[kk + 397] ^ (y >> 1) ^ ((y & 1) ? 0x9908b0dfU : 0); }
    for (; kk < 623; kk++) { y = (mt[kk] & 0x80000000U) | (mt[kk + 1] & 0x7fffffffU); mt[kk] = mt[kk + (397 - 624)] ^ (y >> 1) ^ ((y & 1) ? 0x9908b0dfU : 0); }
    y = (mt[623] & 0x80000000U) | (mt[0] & 0x7fffffffU); mt[623] = mt[396] ^ (y >> 1) ^ ((y & 1) ? 0x9908b0dfU : 0);
    mti = 0;
  }
  uint32_t y = mt[mti++];
  y ^= y >> 11; y ^= (y << 7) & 0x9d2c5680U; y ^= (y << 15) & 0xefc60000U; y ^= y >> 18;
  return y;
}

/* ---- schedules */
enum Sched { SYNC, DEFER, MIXED, THREADS };
static enum Sched g_sched = SYNC;
typedef struct { int k; llb_task_interface_t ti; uint8_t v[MAXV]; uint64_t vlen; IntList disc; int us; } Pending;
static Pending* g_pend = NULL; static size_t g_npend = 0, g_cappend = 0; static pthread_mutex_t g_pm = PTHREAD_MUTEX_INITIALIZER;
static pthread_t* g_threads = NULL; static size_t g_nthreads = 0, g_capthreads = 0;

static void finish(Pending* p) {
  char b[32], s[2 * MAXV + 48];
  for (int i = 0; i < p->disc.n; i++) {
    llb_data_t kd = kname(p->disc.v[i], b);
    raw("call-discovered", p->k, &kd, NULL);
    llb_buildengine_task_discovered_dependency(p->ti, &kd);
  }
  vs(p->v, p->vlen, s);
  ev("complete %d %s", p->k, s);
  llb_data_t vd; vd.length = p->vlen; vd.data = p->v;
  int force = (p->k >= 0 && p->k < MAXK) ? g_force[p->k] : 0;
  raw("call-complete", p->k, &vd, "%d", force);
  llb_buildengine_task_is_complete(p->ti, &vd, force ? true : false);
}
static int pend_cmp(const void* a, const void* b) { return ((const Pending*)a)->k - ((const Pending*)b)->k; }
static void complete_some(size_t n) {
  Pending* take = NULL; size_t nt = 0;
  pthread_mutex_lock(&g_pm);
  qsort(g_pend, g_npend, sizeof(Pending), pend_cmp);
  take = malloc(sizeof(Pending) * (g_npend + 1));
  while (n-- && g_npend) {
    size_t i = mt_next() % g_npend; take[nt++] = g_pend[i];
    memmove(g_pend + i, g_pend + i + 1, sizeof(Pending) * (g_npend - i - 1)); g_npend--;
  }
  pthread_mutex_unlock(&g_pm);
  for (size_t i = 0; i < nt; i++) finish(&take[i]);
  free(take);
}
static void hook(int point, const void* data) {
  (void)data;
  if (point == 0) {
    if (g_sched == MIXED && g_npend && mt_next() % 3 == 0) complete_some(1);
  } else if (point == 1) {
    if ((g_sched == DEFER || g_sched == MIXED) && g_npend) complete_some(1 + mt_next() % g_npend);
  } else if (point == 2) {
    if (g_sched == DEFER || g_sched == MIXED) complete_some(g_npend);
  }
}
static void* thread_main(void* a) { Pending* p = a; usleep(p->us); finish(p); free(p); return NULL; }

/* ---- tasks */
typedef struct {
  int k; RuleDef d; int nslots; Val slots[2 * MAXL]; int slotkey[2 * MAXL]; uint64_t slotid[2 * MAXL]; int branched;
} TaskCtx;
static void check_ctx(void* engine_context, const char* where) { if (engine_context != g_cur_ctx) ev("BAD-ENGINE-CONTEXT %s", where); }

static void treq(TaskCtx* t, llb_task_interface_t ti, int key) {
  char b[32]; int id = t->nslots;
  if (id >= 2 * MAXL) { ev("TOO-MANY-SLOTS %d", t->k); return; }
  t->slots[id].empty = 1; t->slots[id].p = t->slots[id].s = 0; t->slotkey[id] = key; t->nslots++;
  llb_data_t kd = kname(key, b);
  uint64_t cid = (t->k >= 0 && t->k < MAXK && id < g_nids[t->k]) ? g_ids[t->k][id] : g_idbase + (uint64_t)id;
  t->slotid[id] = cid;
  raw("call-needs_input", t->k, &kd, "%llu", (unsigned long long)cid);
  llb_buildengine_task_needs_input(ti, &kd, (uintptr_t)cid);
}
static void t_start(void* context, void* engine_context, llb_task_interface_t ti) {
  TaskCtx* t = context; char b[32];
  check_ctx(engine_context, "start");
  ev("start %d", t->k);
  for (int i = 0; i < t->d.req.n; i++) treq(t, ti, t->d.req.v[i]);
  for (int i = 0; i < t->d.follow.n; i++) {
    llb_data_t kd = kname(t->d.follow.v[i], b);
    raw("call-must_follow", t->k, &kd, NULL);
    llb_buildengine_task_must_follow(ti, &kd);
  }
}
static void t_provide(void* context, void* engine_context, llb_task_interface_t ti, uintptr_t input_id, const llb_data_t* value) {
  TaskCtx* t = context; char s[2 * MAXV + 48];
  check_ctx(engine_context, "provide_value");
  uint64_t id = (uint64_t)input_id - g_idbase;
  for (int i = 0; i < t->nslots; i++) if (t->slotid[i] == (uint64_t)input_id) { id = (uint64_t)i; break; }
  raw("cb-provide_value", t->k, value, "%llu", (unsigned long long)input_id);
  vs(value->data, value->length, s);
  /* the C callback does not receive the key: it is recovered from the slot this driver requested */
  ev("provide %d %lu %d %s", t->k, (unsigned long)id, id < (uint64_t)t->nslots ? t->slotkey[id] : -1, s);
  if (id < (uint64_t)t->nslots) t->slots[id] = dec(value->data, value->length);
  if (!t->branched && t->d.brslot >= 0 && (int)id == t->d.brslot && t->d.brslot < t->d.req.n) {
    t->branched = 1;
    IntList* l = (t->slots[id].p % 2 == 0) ? &t->d.brA : &t->d.brB;
    for (int i = 0; i < l->n; i++) treq(t, ti, l->v[i]);
  }
}
static void t_avail(void* context, void* engine_context, llb_task_interface_t ti) {
  TaskCtx* t = context; int k = t->k;
  check_ctx(engine_context, "inputs_available");
  ev("avail %d", k);
  uint64_t obs = t->d.obs ? env(k) : 0;
  uint64_t rsig = 0;                                   /* a rule created through the C interface has the null signature */
  uint64_t h = ((uint64_t)k + rsig * 7) % M;
  for (int i = 0; i < t->nslots; i++) { h = mix(h, t->slots[i].p); h = mix(h, t->slots[i].s); }
  for (int i = 0; i < t->d.disc.n; i++) h = mix(h, env(t->d.disc.v[i]) + 1);
  h = mix(h, obs);
  if (k % 3 == 0) h = h % 2;
  Pending p; memset(&p, 0, sizeof p); p.k = k; p.ti = ti; p.disc = t->d.disc;
  switch ((k >= 0 && k < MAXK) ? g_shape[k] : 0) {
  case 1: p.vlen = 0; break;
  case 2: p.vlen = 1; p.v[0] = (h % 3 == 0) ? 0 : (uint8_t)(h & 0xff); break;
  case 3: p.vlen = 1 + h % 20; break;                                     /* memset above: all NUL */
  case 4: p.vlen = 4096; for (int i = 0; i < 256; i++) enc(h, obs, p.v + 16 * i); break;
  default: p.vlen = 16; enc(h, obs, p.v); break;
  }
  if (g_quiet && k >= 0 && k < MAXK) { char fs[2 * MAXV + 48]; vs(p.v, p.vlen, fs); snprintf(g_freshval[k], 48, "%s", fs); g_hasfresh[k] = 1; }
  if (g_sched == SYNC || g_quiet) { finish(&p); return; }
  if (g_sched == THREADS) {
    pthread_mutex_lock(&g_pm); p.us = (int)(mt_next() % 1200); pthread_mutex_unlock(&g_pm);
    Pending* hp = malloc(sizeof p); *hp = p;
    if (g_nthreads == g_capthreads) { g_capthreads = g_capthreads ? 2 * g_capthreads : 16; g_threads = realloc(g_threads, g_capthreads * sizeof(pthread_t)); }
    pthread_create(&g_threads[g_nthreads++], NULL, thread_main, hp);
    return;
  }
  pthread_mutex_lock(&g_pm);
  if (g_npend == g_cappend) { g_cappend = g_cappend ? 2 * g_cappend : 16; g_pend = realloc(g_pend, g_cappend * sizeof(Pending)); }
  g_pend[g_npend++] = p;
  pthread_mutex_unlock(&g_pm);
}
static long g_tasks_created = 0, g_tasks_destroyed = 0, g_engine_ctx_destroyed = 0;
static void t_destroy(void* context) { __sync_fetch_and_add(&g_tasks_destroyed, 1); free(context); }

/* ---- rules */
static int g_rulectx[MAXK + 1];                       /* rule context: pointer to the key number (index MAXK: unknown key) */
static const uint8_t g_bogus_key[] = { 'b', 'o', 0, 'g', 'u', 's' };
static llb_task_t* r_create(void* context, void* engine_context) {
  int k = *(int*)context;
  check_ctx(engine_context, "create_task");
  ev("create %d", k);
  TaskCtx* t = calloc(1, sizeof *t); t->k = k; t->d = *def(k); g_tasks_created++;
  llb_task_delegate_t d; memset(&d, 0, sizeof d);
  d.context = t; d.destroy_context = t_destroy; d.start = t_start; d.provide_value = t_provide; d.inputs_available = t_avail;
  return llb_task_create(d);
}
static bool r_valid(void* context, void* engine_context, const llb_rule_t* rule, const llb_data_t* result) {
  int k = *(int*)context; int r = 1;
  check_ctx(engine_context, "is_result_valid");
  if (rule->context != context) ev("BAD-RULE-POINTER %d", k);
  raw("cb-is_result_valid", k, result, NULL);
  int shape = (k >= 0 && k < MAXK) ? g_shape[k] : 0;
  if (def(k)->obs && shape == 0) { Val x = dec(result->data, result->length); r = !x.empty && x.s == env(k); }
  if (k >= 0 && k < MAXK && !g_validret[k]) r = 0;
  if (g_hex) { char s[2 * MAXV + 48]; vs(result->data, result->length, s); ev("valid %d %d %s", k, r ? 1 : 0, s); }
  else ev("valid %d %d", k, r ? 1 : 0);
  return r ? true : false;
}
static void r_status(void* context, void* engine_context, llb_rule_status_kind_t kind) {
  int k = *(int*)context;
  check_ctx(engine_context, "update_status");
  ev("status %d %d", k, (int)kind);
}
static void d_lookup(void* context, const llb_data_t* key, llb_rule_t* rule_out) {
  if (context != g_cur_ctx) ev("BAD-ENGINE-CONTEXT lookup_rule");
  int k = kid(key->data, key->length);
  raw("cb-lookup_rule", k, key, NULL);
  int* rc = &g_rulectx[(k >= 0 && k < MAXK) ? k : MAXK]; *rc = k;
  rule_out->context = rc;
  if (g_rulekey) { rule_out->key.length = sizeof g_bogus_key; rule_out->key.data = g_bogus_key; }
  else rule_out->key = *key;
  rule_out->create_task = r_create; rule_out->is_result_valid = r_valid; rule_out->update_status = r_status;
}
static void d_cycle(void* context, const llb_data_t* keys, uint64_t n) {
  if (context != g_cur_ctx) ev("BAD-ENGINE-CONTEXT cycle_detected");
  char* s = malloc(16 + 16 * n); strcpy(s, "cycle");
  for (uint64_t i = 0; i < n; i++) { raw("cb-cycle", (int)i, &keys[i], NULL); sprintf(s + strlen(s), " %d", kid(keys[i].data, keys[i].length)); }
  ev("%s", s); free(s);
}
static void d_error(void* context, const char* message) {
  if (context != g_cur_ctx) ev("BAD-ENGINE-CONTEXT error");
  char* t = strdup(message); for (char* c = t; *c; c++) if (*c == '\n') *c = ' ';
  ev("error %s", t); free(t);
}

/* ---- BuildKey C API: kind <-> identifier table */
static void kk_first(void* context, uint8_t* data, size_t count) { *(int*)context = count ? (int)data[0] : -2; }
static void keykinds(void) {
  static const int kinds[] = { 0, 1, 2, 3, 4, 5, 6, 7, 8, 10 };
  const char* filters[] = { "*.o" };
  for (unsigned i = 0; i < sizeof kinds / sizeof kinds[0]; i++) {
    llb_build_key_kind_t k = (llb_build_key_kind_t)kinds[i];
    char id = llb_build_key_identifier_for_kind(k);
    llb_build_key_kind_t back = llb_build_key_kind_for_identifier(id);
    llb_build_key_t* key = NULL;
    switch (kinds[i]) {
    case 0: key = llb_build_key_make_command("c"); break;
    case 1: key = llb_build_key_make_custom_task("n", "d"); break;
    case 2: key = llb_build_key_make_directory_contents("/p"); break;
    case 3: key = llb_build_key_make_directory_tree_signature("/p", filters, 1); break;
    case 4: key = llb_build_key_make_node("/p"); break;
    case 5: key = llb_build_key_make_target("t"); break;
    case 7: key = llb_build_key_make_directory_tree_structure_signature("/p", filters, 1); break;
    case 8: key = llb_build_key_make_filtered_directory_contents("/p", filters, 1); break;
    case 10: key = llb_build_key_make_stat("/p"); break;
    default: break;
    }
    if (key) {
      int first = -1; llb_build_key_get_key_data(key, &first, kk_first);
      printf("keykind %d ident=%d back=%d first=%d getkind=%d\n", kinds[i], (int)(unsigned char)id, (int)back, first, (int)llb_build_key_get_kind(key));
      llb_build_key_destroy(key);
    } else printf("keykind %d ident=%d back=%d first=- getkind=-\n", kinds[i], (int)(unsigned char)id, (int)back);
  }
}

/* ---- scenario */
static void ints(const char* s, IntList* l) {
  l->n = 0;
  while (*s) {
    if (*s == ',') { s++; continue; }
    if (l->n < MAXL) l->v[l->n++] = atoi(s);
    while (*s && *s != ',') s++;
  }
}
static int unhex(const char* s, unsigned char** out, size_t* n) {
  if (strcmp(s, "-") == 0) { *out = malloc(1); *n = 0; return 0; }
  size_t l = strlen(s) / 2; unsigned char* r = malloc(l + 1);
  for (size_t i = 0; i < l; i++) {
    int a = s[2 * i] <= '9' ? s[2 * i] - '0' : (s[2 * i] | 32) - 'a' + 10, b = s[2 * i + 1] <= '9' ? s[2 * i + 1] - '0' : (s[2 * i + 1] | 32) - 'a' + 10;
    r[i] = (unsigned char)(a * 16 + b);
  }
  *out = r; *n = l; return 0;
}

static llb_buildengine_t* g_engine = NULL;
static char g_dbpath[4096];
static void d_destroy(void* context) { (void)context; g_engine_ctx_destroyed++; }
static llb_buildengine_t* make_engine(void* ctx) {
  llb_buildengine_delegate_t d; memset(&d, 0, sizeof d);
  d.context = ctx; d.destroy_context = d_destroy; d.lookup_rule = d_lookup; d.cycle_detected = d_cycle; d.error = d_error;
  return llb_buildengine_create(d);
}
/* documented lifetimes: the engine delegate's destroy_context runs once on engine destruction, each task delegate's on task destruction */
static void destroy_engine(llb_buildengine_t* e) {
  long before = g_engine_ctx_destroyed;
  llb_buildengine_destroy(e);
  if (g_engine_ctx_destroyed != before + 1) printf("BAD-ENGINE-CONTEXT-LIFETIME destroy_context ran %ld times\n", g_engine_ctx_destroyed - before);
  if (g_tasks_created != g_tasks_destroyed) printf("BAD-TASK-CONTEXT-LIFETIME created %ld destroyed %ld\n", g_tasks_created, g_tasks_destroyed);
}
static void newengine(int attach, uint32_t schema) {
  if (g_engine) destroy_engine(g_engine);
  memcpy(g_defs, g_pending, sizeof g_defs);
  g_cur_ctx = &g_ctx_magic_a;
  g_engine = make_engine(g_cur_ctx);
  if (attach) {
    llb_data_t p; p.length = strlen(g_dbpath); p.data = (const uint8_t*)g_dbpath;
    char* err = NULL;
    raw("call-attach_db", 0, &p, "%u", (unsigned)schema);
    if (!llb_buildengine_attach_db(g_engine, &p, schema, &err)) printf("attach-error %s\n", err ? err : "");
    free(err);
  }
}
static void snapshot(const char* wd, int n) {
  char path[4200]; snprintf(path, sizeof path, "%s/snap-%d.db", wd, n);
  FILE* in = fopen(g_dbpath, "rb"); if (!in) { printf("dberror open\n"); return; }
  FILE* out = fopen(path, "wb"); if (!out) { fclose(in); printf("dberror snap\n"); return; }
  char buf[65536]; size_t r; while ((r = fread(buf, 1, sizeof buf, in)) > 0) fwrite(buf, 1, r, out);
  fclose(in); fclose(out);
  printf("dbsnap %d\n", n);
}

int main(int argc, char** argv) {
  if (argc < 2) { fprintf(stderr, "usage: capi_driver <scenario> [<workdir>]\n"); return 2; }
  FILE* in = fopen(argv[1], "r"); if (!in) { perror(argv[1]); return 2; }
  const char* wd = argc > 2 ? argv[2] : ".";
  snprintf(g_dbpath, sizeof g_dbpath, "%s/build.db", wd);
  g_trace = getenv("CAPI_TRACE") != NULL;
  int usedb = 0, nbuild = 0, started = 0; uint32_t schema = 1;
  for (int i = 0; i < MAXK; i++) { def_init(&g_pending[i]); def_init(&g_defs[i]); g_validret[i] = 1; }
  int have_hook = (&llbuild_verif_engine_hook != NULL);
  if (have_hook) llbuild_verif_engine_hook = hook;
  char* line = NULL; size_t cap = 0; ssize_t len;
  while ((len = getline(&line, &cap, in)) >= 0) {
    while (len > 0 && (line[len - 1] == '\n' || line[len - 1] == '\r')) line[--len] = 0;
    if (len == 0 || line[0] == '#') continue;
    /* split on single spaces */
    char* t[256]; int nt = 0; char* p = line;
    while (nt < 256) { t[nt++] = p; char* q = strchr(p, ' '); if (!q) break; *q = 0; p = q + 1; }
    if (strcmp(t[0], "name") == 0 && nt >= 3) {
      int k = atoi(t[1]); if (k < 0 || k >= MAXK) { printf("UNSUPPORTED key-number %d\n", k); continue; }
      free(g_name[k]); unhex(t[2], &g_name[k], &g_namelen[k]); g_hasname[k] = 1;
    } else if (strcmp(t[0], "rule") == 0 && nt >= 2) {
      RuleDef d; def_init(&d); d.defined = 1; int k = atoi(t[1]);
      if (k < 0 || k >= MAXK) { printf("UNSUPPORTED key-number %d\n", k); continue; }
      for (int i = 2; i < nt; i++) {
        char* eq = strchr(t[i], '='); const char* b = eq ? eq + 1 : ""; if (eq) *eq = 0; const char* a = t[i];
        if (strcmp(a, "sig") == 0) { d.sig = strtoull(b, 0, 10); if (d.sig != 0) printf("UNSUPPORTED sig (rule %d): llb_rule_t carries no signature\n", k); }
        else if (strcmp(a, "obs") == 0) d.obs = strcmp(b, "1") == 0;
        else if (strcmp(a, "req") == 0) ints(b, &d.req);
        else if (strcmp(a, "single") == 0) { ints(b, &d.single); if (d.single.n) printf("UNSUPPORTED single (rule %d): no single-use request in core.h\n", k); }
        else if (strcmp(a, "follow") == 0) ints(b, &d.follow);
        else if (strcmp(a, "disc") == 0) ints(b, &d.disc);
        else if (strcmp(a, "br") == 0) {
          char* c1 = strchr((char*)b, ':'); d.brslot = atoi(b);
          if (c1) { char* c2 = strchr(c1 + 1, ':'); if (c2) { *c2 = 0; ints(c2 + 1, &d.brB); } ints(c1 + 1, &d.brA); }
        }
      }
      g_pending[k] = d;
    } else if (strcmp(t[0], "set") == 0 && nt >= 3) { int k = atoi(t[1]); if (k >= 0 && k < MAXK) g_env[k] = strtoull(t[2], 0, 10); }
    else if (strcmp(t[0], "force") == 0 && nt >= 3) { int k = atoi(t[1]); if (k >= 0 && k < MAXK) g_force[k] = atoi(t[2]); }
    else if (strcmp(t[0], "idbase") == 0 && nt >= 2) g_idbase = strtoull(t[1], 0, 10);
    else if (strcmp(t[0], "keykinds") == 0) keykinds();
    else if (strcmp(t[0], "ids") == 0 && nt >= 3) {
      int k = atoi(t[1]); if (k >= 0 && k < MAXK) { g_nids[k] = 0; const char* s = t[2];
        while (*s && g_nids[k] < MAXIDS) { if (*s == ',') { s++; continue; } g_ids[k][g_nids[k]++] = strtoull(s, 0, 10); while (*s && *s != ',') s++; } }
    }
    else if (strcmp(t[0], "shape") == 0 && nt >= 3) { int k = atoi(t[1]); if (k >= 0 && k < MAXK) g_shape[k] = atoi(t[2]); }
    else if (strcmp(t[0], "validret") == 0 && nt >= 3) { int k = atoi(t[1]); if (k >= 0 && k < MAXK) g_validret[k] = atoi(t[2]); }
    else if (strcmp(t[0], "hexvalues") == 0 && nt >= 2) g_hex = atoi(t[1]);
    else if (strcmp(t[0], "rulekey") == 0 && nt >= 2) g_rulekey = atoi(t[1]);
    else if (strcmp(t[0], "db") == 0 && nt >= 2) { usedb = strcmp(t[1], "0") != 0; if (strcmp(t[1], "1") == 0 && !started) unlink(g_dbpath); }
    else if (strcmp(t[0], "recreate") == 0 && nt >= 2) { if (strcmp(t[1], "1") != 0) printf("UNSUPPORTED recreate 0: llb_buildengine_attach_db always recreates on a version mismatch\n"); }
    else if (strcmp(t[0], "schema") == 0 && nt >= 2) schema = (uint32_t)strtoul(t[1], 0, 10);
    else if (strcmp(t[0], "restart") == 0) { newengine(usedb, schema); started = 1; printf("restart\n"); }
    else if (strcmp(t[0], "fresh") == 0 && nt >= 2) {
      memcpy(g_saved, g_defs, sizeof g_defs); memcpy(g_defs, g_pending, sizeof g_defs);
      g_quiet = 1; memset(g_hasfresh, 0, sizeof g_hasfresh);
      void* sctx = g_cur_ctx; g_cur_ctx = &g_ctx_magic_b;
      llb_buildengine_t* e2 = make_engine(g_cur_ctx);
      enum Sched ss = g_sched; g_sched = SYNC; g_in_build = 1;
      char b[32], s[2 * MAXV + 48]; llb_data_t kd = kname(atoi(t[1]), b), res;
      llb_buildengine_build(e2, &kd, &res); vs(res.data, res.length, s);
      g_in_build = 0; g_sched = ss;
      destroy_engine(e2); g_cur_ctx = sctx; g_quiet = 0;
      printf("fresh %s %s\n", t[1], s);
      for (int i = 0; i < MAXK; i++) if (g_hasfresh[i]) printf("freshval %d %s\n", i, g_freshval[i]);
      memcpy(g_defs, g_saved, sizeof g_defs);
    } else if (strcmp(t[0], "build") == 0 && nt >= 2) {
      if (!started) { newengine(usedb, schema); started = 1; }
      g_sched = SYNC;
      for (int i = 2; i < nt; i++) {
        if (strncmp(t[i], "sched=", 6) == 0) {
          char* c = strchr(t[i] + 6, ':'); unsigned seed = c ? (unsigned)atoi(c + 1) : 0; if (c) *c = 0; mt_seed(seed);
          const char* m = t[i] + 6;
          g_sched = strcmp(m, "defer") == 0 ? DEFER : strcmp(m, "mixed") == 0 ? MIXED : strcmp(m, "threads") == 0 ? THREADS : SYNC;
          if ((g_sched == DEFER || g_sched == MIXED) && !have_hook) { printf("UNSUPPORTED sched=%s: engine notification points not compiled in\n", m); g_sched = SYNC; }
        } else if (strncmp(t[i], "cancel=", 7) == 0) printf("UNSUPPORTED cancel: core.h has no cancellation entry point\n");
      }
      printf("build %d %s\n", ++nbuild, t[1]);
      char b[32], s[2 * MAXV + 48]; llb_data_t kd = kname(atoi(t[1]), b), res; res.length = 0; res.data = NULL;
      g_in_build = 1;
      raw("call-build", atoi(t[1]), &kd, NULL);
      llb_buildengine_build(g_engine, &kd, &res);
      raw("cb-result", atoi(t[1]), &res, NULL);
      vs(res.data, res.length, s);
      for (size_t i = 0; i < g_nthreads; i++) pthread_join(g_threads[i], NULL);
      g_nthreads = 0;
      g_in_build = 0;
      pthread_mutex_lock(&g_pm); if (g_npend) { printf("leftover-pending %zu\n", g_npend); g_npend = 0; } pthread_mutex_unlock(&g_pm);
      printf("result %s\n", s);
      if (usedb) snapshot(wd, nbuild);
      fflush(stdout);
    }
  }
  if (g_engine) destroy_engine(g_engine);
  fflush(stdout);
  return 0;
}
