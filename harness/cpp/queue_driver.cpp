// Execution-queue driver (C16): drives the REAL lane based queue and real children, one request per line.
//
//   queue <lanes> <fifo|prio|serial> <cancel_us|-1> <settle_us> <job>...      (serial: createSerialQueue, lanes ignored)
//       job = id:prio(h|n):ordhex:dur_us:parent:delay_us:proc(0|1)
//         parent >= 0  : added by job <parent> (from its lane) delay_us after that job started
//         parent = -1-t: added by client thread t, delay_us after the previous add of that thread
//       -> TRACE <seq=event,...> | counts j=n,... | started j=n,... | finished j=n,... | procs j=cb/status,... | copies=<n> | err=<text or ->
//     events, in the order of a global sequence number taken under a mutex; ONLY what the queue's API lets a client see:
//       P:<job>:<h|n>:<ordhex>:<o|lane>  the client (o) / the job running on <lane> is about to call addJob
//       Q:<job>                          that addJob call has returned
//       B:<lane>:<job>                   ExecutionQueueDelegate::queueJobStarted(job) (lane = laneID() seen by the body that follows on the same thread; -1 if none)
//       S:<lane>:<job>:<thread>          the job body begins (QueueJobContext::laneID(), executing thread)
//       E:<lane>:<job>                   the job body ends
//       f:<lane>                         ExecutionQueueDelegate::queueJobFinished
//       s:<lane>                         processStarted with a real pid;   c  cancelAllJobs has returned;   d  the destructor is about to be called
//       x:<lane>                         (appended) the destructor has returned, so every lane thread has been joined
//     The serial queue never calls queueJobStarted/Finished: there B and f are emitted by the job body itself around S..E.
//     Where inside P..Q the queue really enqueued the job, and where between a lane's previous f and its next B it really
//     dequeued one, is NOT observable and is not guessed: the acceptance check treats those two steps as internal.
//     The job closure may be copied or moved any number of times by the queue; `copies` is a statistic, no verdict uses it.
//   proc <lanes|serial> <cancel_us> <base> <job>...            (serial: createSerialQueue)
//       cancel_us: -1 never; -2 cancel before any job is added; n>=0: n us after every job reported processStarted;
//                  n+m: as n, and the queue is destroyed m us after cancelAllJobs() returned WITHOUT waiting for the
//                  completion callbacks first (the destructor has to get the children killed and reaped by itself);
//                  (otherwise the driver waits up to 40 s for every completion callback; if one is missing the answer ends
//                  with hung=1 and the children's process groups are SIGKILLed so that the queue can be destroyed)
//                  the answer then ends with destroy_ms=<time from cancelAllJobs() returning to the destructor returning>
//       base: "environ" (pass nullptr) or a list field of raw "K=V" entries
//       job = <inherit><control><interruptible>[<free>]:<reqenv>:<argv>      reqenv = khex=vhex;... or "."   argv = list field
//             <free> (one digit): descriptor starvation - just before this launch the job fills the process's descriptor
//             table (soft RLIMIT_NOFILE lowered to 64, /dev/null opened until EMFILE) leaving exactly <free> free slots,
//             and releases everything again when executeProcess has returned (the "spawn error" fate: pipe() fails)
//       -> J<i> cb=<n> status=<name> exit=<raw> pid=<pid> started=<n> finished=<n> spawned=<0|1> len=<n> hash=<fnv1a64> out=<hex|~> err=<hex> cblen=<n> mark=<-|0|1> alive=<0|1>  (joined by " | ")
//          cblen = number of output bytes that had been delivered when the completion callback ran (must equal len)
//   pstorm <lanes|serial> <interval_us> <job>...
//       like `proc <lanes> -1 environ ...` (serial: createSerialQueue) but from processStarted until the completion
//       callback of a job a side thread sends SIGUSR1 (no-op handler installed WITHOUT SA_RESTART) to the thread that
//       executes the job, every <interval_us>: a client's ordinary signal handler must not change any child's fate.
//       job may carry a 4th field :<markhex> = path of a file the child creates just before it exits; the answer then has
//       mark=<1|0> (did the file exist when the completion callback ran) and always alive=<0|1> (does the child's pid
//       still exist as a child of the driver, running or zombie, after the queue was destroyed; /proc/<pid>/stat ppid == getpid()).
//   probe_status
//       -> PROBE e:<code>:<raw>:<status> ... s:<sig>:<raw>:<status> ...     (real children: exit N / kill -SIG $$)
#include "common.h"
#include "llbuild/Basic/ExecutionQueue.h"
#include "llbuild/Basic/Subprocess.h"
#include "llvm/ADT/ArrayRef.h"
#include "llvm/ADT/SmallString.h"
#include "llvm/ADT/StringRef.h"
#include "llvm/ADT/Twine.h"
#include <atomic>
#include <chrono>
#include <condition_variable>
#include <map>
#include <mutex>
#include <thread>
#include <algorithm>
#include <unistd.h>
#include <signal.h>
#include <pthread.h>
#include <errno.h>
#include <fcntl.h>
#include <sys/resource.h>

using namespace llbuild;
using namespace llbuild::basic;

// ---------------------------------------------------------------- event log
struct Ev { uint64_t seq; char kind; int lane; int job; int tid; };
static std::mutex gMu;
static std::vector<Ev> gEv;
static uint64_t gSeq = 0;
static std::atomic<int> gTidCounter{0};
static std::atomic<long> gCopies{0};
static thread_local int tl_tid = -1;
static thread_local int tl_lane = -1;
static int mytid() { if (tl_tid < 0) tl_tid = gTidCounter++; return tl_tid; }
static void logev(char kind, int lane, int job) {
  int t = mytid();
  std::lock_guard<std::mutex> g(gMu);          // never held while calling into the queue
  gEv.push_back(Ev{gSeq++, kind, lane, job, t});
}
static void usleep_for(int us) { if (us > 0) std::this_thread::sleep_for(std::chrono::microseconds(us)); }

static const char* statusName(ProcessStatus s) {
  switch (s) {
  case ProcessStatus::Succeeded: return "Succeeded";
  case ProcessStatus::Failed: return "Failed";
  case ProcessStatus::Cancelled: return "Cancelled";
  case ProcessStatus::Skipped: return "Skipped";
  default: return "Unknown";
  }
}

// ---------------------------------------------------------------- queue scenarios
struct JobSpec { int id; bool high; std::string ord; int dur; int parent; int delay; int proc; };

struct Desc : public JobDescriptor {
  int id; std::string ord;
  Desc(int id, std::string ord) : id(id), ord(std::move(ord)) {}
  StringRef getOrdinalName() const override { return StringRef(ord); }
  void getShortDescription(SmallVectorImpl<char>& r) const override {}
  void getVerboseDescription(SmallVectorImpl<char>& r) const override {}
};

struct Scenario;
struct JobFn {
  Scenario* sc; int id;
  JobFn(Scenario* sc, int id) : sc(sc), id(id) {}
  JobFn(const JobFn& o) : sc(o.sc), id(o.id) { gCopies++; }             // statistic only
  JobFn(JobFn&& o) : sc(o.sc), id(o.id) {}
  void operator()(QueueJobContext* ctx);
};

struct Scenario : public ExecutionQueueDelegate {
  ExecutionQueue* queue = nullptr;
  std::vector<JobSpec> jobs;
  std::vector<std::unique_ptr<Desc>> descs;
  std::map<int, std::vector<int>> children;   // parent id -> indices, sorted by delay
  std::vector<std::atomic<int>> count, started, finished, cbs;
  std::vector<int> procStatus;
  std::mutex mu;
  std::string err;
  bool serial = false;      // the serial queue never calls queueJobStarted/Finished: the job body logs its own end

  explicit Scenario(size_t n) : count(n), started(n), finished(n), cbs(n), procStatus(n, -99) {
    for (size_t i = 0; i < n; i++) { count[i] = 0; started[i] = 0; finished[i] = 0; cbs[i] = 0; }
  }
  int indexOf(JobDescriptor* d) { return static_cast<Desc*>(d)->id; }

  void add(int idx, int srcLane) {
    const JobSpec& j = jobs[idx];
    logev('P', srcLane, idx);
    queue->addJob(QueueJob(descs[idx].get(), JobFn(this, idx)), j.high ? QueueJobPriority::High : QueueJobPriority::Normal);
    logev('Q', srcLane, idx);
  }

  void queueJobStarted(JobDescriptor* d) override { int i = indexOf(d); started[i]++; logev('B', -1, i); }
  void queueJobFinished(JobDescriptor* d) override { int i = indexOf(d); finished[i]++; logev('F', tl_lane, i); }
  void processStarted(ProcessContext* ctx, ProcessHandle, llbuild_pid_t pid) override {
    if (pid != (llbuild_pid_t)-1) logev('W', tl_lane, indexOf(reinterpret_cast<JobDescriptor*>(ctx)));
  }
  void processHadError(ProcessContext*, ProcessHandle, const Twine& m) override {
    std::lock_guard<std::mutex> g(mu); err += m.str() + ";";
  }
  void processHadOutput(ProcessContext*, ProcessHandle, StringRef) override {}
  void processFinished(ProcessContext*, ProcessHandle, const ProcessResult&) override {}
};

void JobFn::operator()(QueueJobContext* ctx) {
  int lane = (int)ctx->laneID();
  tl_lane = lane;
  sc->count[id]++;
  if (sc->serial) { sc->started[id]++; logev('B', lane, id); }
  logev('S', lane, id);
  const JobSpec& me = sc->jobs[id];
  int elapsed = 0;
  auto it = sc->children.find(id);
  if (it != sc->children.end()) {
    for (int c : it->second) {
      int at = sc->jobs[c].delay;
      if (at > elapsed) { usleep_for(at - elapsed); elapsed = at; }
      sc->add(c, lane);
    }
  }
  if (me.dur > elapsed) usleep_for(me.dur - elapsed);
  if (me.proc) {
    std::vector<StringRef> cmd{"/bin/true"};
    ProcessAttributes attr{true};
    attr.controlEnabled = false;
    Scenario* s = sc; int i = id;
    sc->queue->executeProcess(ctx, cmd, {}, attr, {[s, i](ProcessResult r) { s->cbs[i]++; s->procStatus[i] = (int)r.status; }});
  }
  logev('E', lane, id);
  if (sc->serial) { sc->finished[id]++; logev('F', lane, id); }
}

static std::string runQueue(const SV& a) {
  if (a.size() < 5) return "ERR args";
  int lanes = atoi(a[1].c_str());
  SchedulerAlgorithm alg = a[2] == "fifo" ? SchedulerAlgorithm::FIFO : SchedulerAlgorithm::NamePriority;
  int cancelUs = atoi(a[3].c_str()), settleUs = atoi(a[4].c_str());
  size_t n = a.size() - 5;
  Scenario sc(n);
  for (size_t i = 0; i < n; i++) {
    SV f = split(a[5 + i], ':');
    if (f.size() != 7 || atoi(f[0].c_str()) != (int)i) return "ERR job " + a[5 + i];
    JobSpec j{(int)i, f[1] == "h", unhex(f[2]), atoi(f[3].c_str()), atoi(f[4].c_str()), atoi(f[5].c_str()), atoi(f[6].c_str())};
    sc.jobs.push_back(j);
    sc.descs.emplace_back(new Desc((int)i, j.ord));
  }
  std::map<int, std::vector<int>> byThread;
  for (auto& j : sc.jobs) {
    if (j.parent >= 0) {
      if (j.parent >= (int)n || j.parent >= j.id) return "ERR parent";
      sc.children[j.parent].push_back(j.id);
    } else byThread[-1 - j.parent].push_back(j.id);
  }
  for (auto& kv : sc.children)
    std::stable_sort(kv.second.begin(), kv.second.end(), [&](int x, int y) { return sc.jobs[x].delay < sc.jobs[y].delay; });
  { std::lock_guard<std::mutex> g(gMu); gEv.clear(); gSeq = 0; }
  gCopies = 0;

  if (a[2] == "serial") { sc.serial = true; lanes = 1; sc.queue = createSerialQueue(sc, nullptr).release(); }
  else sc.queue = createLaneBasedExecutionQueue(sc, lanes, alg, getDefaultQualityOfService(), nullptr);
  std::vector<std::thread> adders;
  for (auto& kv : byThread) {
    std::vector<int> ids = kv.second;
    adders.emplace_back([&sc, ids]() { for (int i : ids) { usleep_for(sc.jobs[i].delay); sc.add(i, -1); } });
  }
  std::thread canceller;
  if (cancelUs >= 0)
    canceller = std::thread([&sc, cancelUs]() { usleep_for(cancelUs); sc.queue->cancelAllJobs(); logev('X', -1, -1); });
  for (auto& t : adders) t.join();
  if (canceller.joinable()) canceller.join();
  usleep_for(settleUs);
  logev('D', -1, -1);
  delete sc.queue;                     // drains what is still queued, joins the lanes
  sc.queue = nullptr;

  // ---- print the events (nothing is inferred beyond the lane of a queueJobStarted call: the body that follows on its thread)
  std::vector<Ev> ev;
  { std::lock_guard<std::mutex> g(gMu); ev = gEv; }
  std::string err = sc.err;
  std::vector<std::pair<uint64_t, std::string>> labels;
  for (size_t k = 0; k < ev.size(); k++) {
    const Ev& e = ev[k];
    switch (e.kind) {
    case 'P': { const JobSpec& j = sc.jobs[e.job];
      labels.push_back({e.seq, "P:" + std::to_string(e.job) + ":" + (j.high ? "h" : "n") + ":" + hex(j.ord) + ":" + (e.lane < 0 ? std::string("o") : std::to_string(e.lane))}); break; }
    case 'Q': labels.push_back({e.seq, "Q:" + std::to_string(e.job)}); break;
    case 'B': {
      int lane = e.lane;
      if (lane < 0) for (size_t m = k + 1; m < ev.size(); m++) if (ev[m].tid == e.tid && (ev[m].kind == 'S' || ev[m].kind == 'B' || ev[m].kind == 'F')) { if (ev[m].kind == 'S' && ev[m].job == e.job) lane = ev[m].lane; break; }
      labels.push_back({e.seq, "B:" + std::to_string(lane) + ":" + std::to_string(e.job)}); break; }
    case 'S': labels.push_back({e.seq, "S:" + std::to_string(e.lane) + ":" + std::to_string(e.job) + ":" + std::to_string(e.tid)}); break;
    case 'E': labels.push_back({e.seq, "E:" + std::to_string(e.lane) + ":" + std::to_string(e.job)}); break;
    case 'F': labels.push_back({e.seq, "f:" + std::to_string(e.lane)}); break;
    case 'W': labels.push_back({e.seq, "s:" + std::to_string(e.lane)}); break;
    case 'X': labels.push_back({e.seq, "c"}); break;
    case 'D': labels.push_back({e.seq, "d"}); break;
    default: break;
    }
  }
  std::sort(labels.begin(), labels.end());
  uint64_t last = labels.empty() ? 0 : labels.back().first;
  for (int l = 0; l < lanes; l++) labels.push_back({++last, "x:" + std::to_string(l)});   // the destructor joined every lane
  std::string out = "TRACE ";
  for (size_t i = 0; i < labels.size(); i++) { if (i) out += ","; out += std::to_string(labels[i].first) + "=" + labels[i].second; }
  auto tab = [&](const char* name, std::vector<std::atomic<int>>& v) {
    out += std::string(" | ") + name + " ";
    for (size_t i = 0; i < v.size(); i++) { if (i) out += ","; out += std::to_string(i) + "=" + std::to_string(v[i].load()); }
    if (v.empty()) out += ".";
  };
  tab("counts", sc.count); tab("started", sc.started); tab("finished", sc.finished);
  out += " | procs ";
  bool any = false;
  for (size_t i = 0; i < n; i++) if (sc.jobs[i].proc) {
    if (any) out += ","; any = true;
    out += std::to_string(i) + "=" + std::to_string(sc.cbs[i].load()) + "/" + statusName((ProcessStatus)sc.procStatus[i]);
  }
  if (!any) out += ".";
  out += " | copies=" + std::to_string(gCopies.load());
  out += " | err=" + (err.empty() ? std::string("-") : err);
  return out;
}

// ---------------------------------------------------------------- real children
struct ProcJob {
  bool inherit, control, interruptible;
  std::vector<std::pair<std::string, std::string>> env;
  SV argv;
  // results
  std::atomic<int> cb{0}, started{0}, finished{0}, spawned{0};
  int status = -99, exitCode = 0; long pid = -1;
  std::string out, err;
  // signal storm / ordering observation
  std::string markFile; int markSeen = -1; long lenAtCb = -1;
  int starveFree = -1;
  pthread_t thr; std::atomic<bool> thrValid{false}, done{false};
};

struct ProcScenario : public ExecutionQueueDelegate {
  std::vector<std::unique_ptr<ProcJob>> jobs;
  std::vector<std::unique_ptr<Desc>> descs;
  std::mutex mu; std::condition_variable cv;
  int nStarted = 0, nDone = 0;
  ProcJob& of(ProcessContext* ctx) { return *jobs[static_cast<Desc*>(reinterpret_cast<JobDescriptor*>(ctx))->id]; }
  void queueJobStarted(JobDescriptor*) override {}
  void queueJobFinished(JobDescriptor*) override {}
  void processStarted(ProcessContext* ctx, ProcessHandle, llbuild_pid_t pid) override {
    ProcJob& j = of(ctx); j.started++;
    j.thr = pthread_self(); j.thrValid = true;
    std::lock_guard<std::mutex> g(mu);
    j.pid = (long)pid; if (pid != (llbuild_pid_t)-1) j.spawned = 1;
    nStarted++; cv.notify_all();
  }
  void processHadError(ProcessContext* ctx, ProcessHandle, const Twine& m) override {
    std::lock_guard<std::mutex> g(mu); of(ctx).err += m.str() + ";";
  }
  void processHadOutput(ProcessContext* ctx, ProcessHandle, StringRef d) override {
    std::lock_guard<std::mutex> g(mu); of(ctx).out.append(d.data(), d.size());
  }
  void processFinished(ProcessContext* ctx, ProcessHandle, const ProcessResult&) override { of(ctx).finished++; }
};

static uint64_t fnv1a(const std::string& s) {
  uint64_t h = 1469598103934665603ULL;
  for (unsigned char c : s) { h ^= c; h *= 1099511628211ULL; }
  return h;
}

// runs the jobs (one process launch each) on a fresh queue; returns when every completion callback has fired
static void onStormSignal(int) {}

static long gDestroyMs = -1;
static int gHung = 0;
static void runProcs(ProcScenario& sc, int lanes, int cancelUs, const char* const* base, bool serial = false, int stormUs = -1, int destroyUs = -1) {
  gDestroyMs = -1; gHung = 0;
  ExecutionQueue* q = serial ? createSerialQueue(sc, base).release()
                             : createLaneBasedExecutionQueue(sc, lanes, SchedulerAlgorithm::FIFO, getDefaultQualityOfService(), base);
  std::atomic<bool> stormStop{false};
  std::thread storm;
  if (stormUs >= 0) {
    struct sigaction sa; memset(&sa, 0, sizeof(sa)); sa.sa_handler = onStormSignal; sigemptyset(&sa.sa_mask); sa.sa_flags = 0;   // no SA_RESTART
    sigaction(SIGUSR1, &sa, nullptr);
    storm = std::thread([&sc, &stormStop, stormUs]() {
      // the executing threads (lanes / serial worker) outlive this thread: it is joined before the queue is deleted
      while (!stormStop) {
        for (auto& j : sc.jobs) if (j->thrValid && !j->done) pthread_kill(j->thr, SIGUSR1);
        usleep_for(stormUs);
      }
    });
  }
  if (cancelUs == -2) q->cancelAllJobs();
  size_t n = sc.jobs.size();
  for (size_t i = 0; i < n; i++) {
    ProcJob* pj = sc.jobs[i].get();
    ProcScenario* s = &sc;
    q->addJob(QueueJob(sc.descs[i].get(), [pj, s, q](QueueJobContext* ctx) {
      std::vector<StringRef> cmd(pj->argv.begin(), pj->argv.end());
      std::vector<std::pair<StringRef, StringRef>> env;
      for (auto& kv : pj->env) env.push_back({StringRef(kv.first), StringRef(kv.second)});
      ProcessAttributes attr{pj->interruptible};
      attr.inheritEnvironment = pj->inherit;
      attr.controlEnabled = pj->control;
      std::vector<int> fillers; struct rlimit oldLim; bool limited = false;
      if (pj->starveFree >= 0) {
        if (getrlimit(RLIMIT_NOFILE, &oldLim) == 0) { struct rlimit nl = oldLim; nl.rlim_cur = 64; limited = setrlimit(RLIMIT_NOFILE, &nl) == 0; }
        fillers.reserve(128);
        for (;;) { int fd = open("/dev/null", O_RDONLY | O_CLOEXEC); if (fd < 0) break; fillers.push_back(fd); if (fillers.size() > 100000) break; }
        for (int k = 0; k < pj->starveFree && !fillers.empty(); k++) { close(fillers.back()); fillers.pop_back(); }
      }
      q->executeProcess(ctx, cmd, env, attr, {[pj, s](ProcessResult r) {
        pj->done = true;
        if (!pj->markFile.empty()) pj->markSeen = access(pj->markFile.c_str(), F_OK) == 0 ? 1 : 0;
        std::lock_guard<std::mutex> g(s->mu);
        pj->lenAtCb = (long)pj->out.size();
        pj->status = (int)r.status; pj->exitCode = r.exitCode;
        if (r.pid != (llbuild_pid_t)-1) pj->pid = (long)r.pid;
        pj->cb++;
        if (pj->cb.load() == 1) s->nDone++;
        s->cv.notify_all();
      }});
      for (int fd : fillers) close(fd);
      if (limited) setrlimit(RLIMIT_NOFILE, &oldLim);
    }));
  }
  if (cancelUs >= 0) {
    { std::unique_lock<std::mutex> lk(sc.mu);
      sc.cv.wait_for(lk, std::chrono::seconds(20), [&] { return sc.nStarted + sc.nDone >= (int)std::min<size_t>(n, (size_t)lanes); }); }
    usleep_for(cancelUs);
    q->cancelAllJobs();
  }
  if (cancelUs >= 0 && destroyUs >= 0) {
    // destroy inside the SIGKILL grace period: nothing but the destructor is left to get the children reaped
    auto t0 = std::chrono::steady_clock::now();
    usleep_for(destroyUs);
    if (storm.joinable()) { stormStop = true; storm.join(); }
    delete q;
    gDestroyMs = std::chrono::duration_cast<std::chrono::milliseconds>(std::chrono::steady_clock::now() - t0).count();
    return;
  }
  { std::unique_lock<std::mutex> lk(sc.mu);
    bool all = sc.cv.wait_for(lk, std::chrono::seconds(40), [&] { return sc.nDone >= (int)n; });
    if (!all) {
      // some launch never completed: report it (hung=1) and unwind by killing the children's process groups,
      // otherwise the destructor below would block for ever
      gHung = 1;
      for (auto& j : sc.jobs) if (j->cb.load() == 0 && j->pid > 1) ::kill(-(pid_t)j->pid, SIGKILL);
      sc.cv.wait_for(lk, std::chrono::seconds(20), [&] { return sc.nDone >= (int)n; });
    } }
  if (storm.joinable()) { stormStop = true; storm.join(); }
  delete q;
}

// 1 = the pid still exists AS A CHILD OF THIS PROCESS (running or zombie): read /proc/<pid>/stat and require
// ppid == getpid(), so a pid recycled by some other process on the machine is never mistaken for our child.
static int pidAlive(long pid) {
  if (pid <= 1) return 0;
  char path[64]; snprintf(path, sizeof(path), "/proc/%ld/stat", pid);
  FILE* f = fopen(path, "r");
  if (!f) return 0;
  char buf[1024]; size_t n = fread(buf, 1, sizeof(buf) - 1, f); fclose(f); buf[n] = 0;
  const char* rp = strrchr(buf, ')');            // the command name may contain spaces and parentheses
  if (!rp) return 0;
  char state = 0; long ppid = -1;
  if (sscanf(rp + 1, " %c %ld", &state, &ppid) != 2) return 0;
  return ppid == (long)getpid() ? 1 : 0;
}

static std::string showProc(size_t i, ProcJob& j) {
  std::string o = "J" + std::to_string(i) + " cb=" + std::to_string(j.cb.load()) + " status=" + statusName((ProcessStatus)j.status) +
    " exit=" + std::to_string(j.exitCode) + " pid=" + std::to_string(j.pid) + " started=" + std::to_string(j.started.load()) +
    " finished=" + std::to_string(j.finished.load()) + " spawned=" + std::to_string(j.spawned.load()) +
    " len=" + std::to_string(j.out.size()) + " hash=" + std::to_string((unsigned long long)fnv1a(j.out)) +
    " out=" + (j.out.size() <= 4096 ? hex(j.out) : std::string("~")) + " err=" + hex(j.err) +
    " cblen=" + std::to_string(j.lenAtCb) + " mark=" + (j.markSeen < 0 ? std::string("-") : std::to_string(j.markSeen)) + " alive=" + std::to_string(pidAlive(j.pid));
  return o;
}

static std::string runProcCmd(const SV& a0) {
  SV a = a0;
  bool serial = false; int stormUs = -1;
  if (a[0] == "pstorm") {           // pstorm <lanes|serial> <interval_us> <job>...  ->  proc <lanes> -1 environ <job>...
    if (a.size() < 4) return "ERR args";
    serial = a[1] == "serial"; stormUs = atoi(a[2].c_str());
    SV b{"proc", serial ? "1" : a[1], "-1", "environ"};
    b.insert(b.end(), a.begin() + 3, a.end());
    a = b;
  }
  if (a.size() < 5) return "ERR args";
  if (a[1] == "serial") { serial = true; a[1] = "1"; }
  int lanes = atoi(a[1].c_str()), cancelUs = atoi(a[2].c_str()), destroyUs = -1;
  if (a[2].find('+') != std::string::npos) destroyUs = atoi(a[2].substr(a[2].find('+') + 1).c_str());
  SV baseStore; std::vector<const char*> basePtrs; const char* const* base = nullptr;
  if (a[3] != "environ") { baseStore = unlist(a[3]); for (auto& s : baseStore) basePtrs.push_back(s.c_str()); basePtrs.push_back(nullptr); base = basePtrs.data(); }
  ProcScenario sc;
  for (size_t i = 4; i < a.size(); i++) {
    SV f = split(a[i], ':');
    if ((f.size() != 3 && f.size() != 4) || (f[0].size() != 3 && f[0].size() != 4)) return "ERR job " + a[i];
    std::unique_ptr<ProcJob> j(new ProcJob);
    if (f[0].size() == 4) j->starveFree = f[0][3] - '0';
    j->inherit = f[0][0] == '1'; j->control = f[0][1] == '1'; j->interruptible = f[0][2] == '1';
    if (f[1] != ".") for (auto& kv : split(f[1], ';')) { SV p = split(kv, '='); if (p.size() != 2) return "ERR env"; j->env.push_back({unhex(p[0]), unhex(p[1])}); }
    j->argv = unlist(f[2]);
    if (f.size() == 4) j->markFile = unhex(f[3]);
    sc.descs.emplace_back(new Desc((int)sc.jobs.size(), ""));
    sc.jobs.push_back(std::move(j));
  }
  auto t0 = std::chrono::steady_clock::now();
  runProcs(sc, lanes, cancelUs, base, serial, stormUs, destroyUs);
  long ms = std::chrono::duration_cast<std::chrono::milliseconds>(std::chrono::steady_clock::now() - t0).count();
  std::string out;
  for (size_t i = 0; i < sc.jobs.size(); i++) { if (i) out += " | "; out += showProc(i, *sc.jobs[i]); }
  out += " | elapsed_ms=" + std::to_string(ms);
  if (gDestroyMs >= 0) out += " | destroy_ms=" + std::to_string(gDestroyMs);
  if (gHung) out += " | hung=1";
  return out;
}

static std::string probeStatus() {
  ProcScenario sc;
  std::vector<std::string> tags;
  auto addJob = [&](const std::string& tag, const std::string& script) {
    std::unique_ptr<ProcJob> j(new ProcJob);
    j->inherit = true; j->control = false; j->interruptible = true;
    j->argv = SV{"/bin/sh", "-c", script};
    sc.descs.emplace_back(new Desc((int)sc.jobs.size(), ""));
    sc.jobs.push_back(std::move(j)); tags.push_back(tag);
  };
  for (int c = 0; c < 256; c++) addJob("e:" + std::to_string(c), "exit " + std::to_string(c));
  for (int s = 1; s <= 31; s++) {
    if (s == SIGSTOP || s == SIGTSTP || s == SIGTTIN || s == SIGTTOU) continue;   // these stop the child: wait4(…, 0) never reports them
    addJob("s:" + std::to_string(s), "kill -" + std::to_string(s) + " $$; exit 77");
  }
  runProcs(sc, 8, -1, nullptr);
  std::string out = "PROBE";
  for (size_t i = 0; i < sc.jobs.size(); i++) {
    ProcJob& j = *sc.jobs[i];
    out += " " + tags[i] + ":" + std::to_string(j.cb.load() == 1 ? j.exitCode : -1) + ":" + statusName((ProcessStatus)j.status);
  }
  return out;
}

int main() {
  signal(SIGPIPE, SIG_DFL);
  std::string line;
  while (std::getline(std::cin, line)) {
    SV a = split(line, ' ');
    std::string ans;
    if (a.empty() || a[0].empty()) ans = "";
    else if (a[0] == "queue") ans = runQueue(a);
    else if (a[0] == "proc" || a[0] == "pstorm") ans = runProcCmd(a);
    else if (a[0] == "probe_status") ans = probeStatus();
    else ans = "ERR unknown " + a[0];
    fputs(ans.c_str(), stdout); fputc('\n', stdout); fflush(stdout);
  }
  return 0;
}
