// Dependency-file parser driver (C11, deps-parser part of C19): runs the real core::MakefileDepsParser /
// core::DependencyInfoParser on an EXACT-SIZE heap copy of the input WITHOUT terminator, so that the ASan
// build of this driver reports any read outside the supplied buffer.
//   makedeps <0|1 ignoreSubsequentOutputs> <hexdata>   -> S rawhex unhex|D rawhex unhex|E|X code pos   ("." = none)
//   depinfo <hexdata>                                  -> V hex|I hex|M hex|O hex|X code pos
//   is_absolute <hexpath>                              -> 0|1   (llvm::sys::path::is_absolute)
//   abspath <hexcwd-ignored> <hexwd> <hexword>         -> hex   (the statements of DepsActions::actOnRuleDependency)
//   make_absolute <hexcwd-ignored> <hexpath>           -> hex   (llvm::sys::fs::make_absolute)
//   cwd                                                -> hex   (llvm::sys::fs::current_path)
#include "common.h"
#include "llbuild/Core/MakefileDepsParser.h"
#include "llbuild/Core/DependencyInfoParser.h"
#include "llvm/ADT/SmallString.h"
#include "llvm/ADT/StringRef.h"
#include "llvm/Support/FileSystem.h"
#include "llvm/Support/Path.h"
#include <climits>
#include <cstdlib>
using namespace llbuild;
using llvm::StringRef;

// an exact-size malloc'ed copy: no byte after the data belongs to the allocation
struct ExactBuf {
  char* p; size_t n;
  explicit ExactBuf(const std::string& s) : p(nullptr), n(s.size()) {
    if (n) { p = (char*)malloc(n); memcpy(p, s.data(), n); }   // empty input: no storage at all
  }
  ~ExactBuf() { if (p) free(p); }
  StringRef ref() const { return StringRef(p, n); }
};

static int mdCode(StringRef m) {
  if (m == "unexpected character in file") return 1;
  if (m == "missing ':' following rule") return 2;
  if (m == "unexpected character in prerequisites") return 3;
  return 99;
}
static int diCode(StringRef m) {
  if (m == "missing null terminator") return 1;
  if (m == "missing version record") return 2;
  if (m == "empty operand") return 3;
  if (m == "invalid duplicate version") return 4;
  if (m == "unknown opcode in file") return 5;
  if (m == "missing operand") return 6;
  return 99;
}
static void add(std::string& out, const std::string& ev) { if (!out.empty()) out += "|"; out += ev; }

static std::string runMakeDeps(bool ign, const std::string& data) {
  struct A : core::MakefileDepsParser::ParseActions {
    std::string out;
    void error(StringRef message, uint64_t position) override {
      int c = mdCode(message);
      add(out, "X " + std::to_string(c) + " " + std::to_string((unsigned long long)position) +
                   (c == 99 ? " " + hex(message.str()) : std::string()));
    }
    void actOnRuleStart(StringRef name, StringRef un) override { add(out, "S " + hex(name.str()) + " " + hex(un.str())); }
    void actOnRuleDependency(StringRef dep, StringRef un) override { add(out, "D " + hex(dep.str()) + " " + hex(un.str())); }
    void actOnRuleEnd() override { add(out, "E"); }
  } a;
  ExactBuf b(data);
  core::MakefileDepsParser(b.ref(), a, ign).parse();
  return a.out.empty() ? "." : a.out;
}

static std::string runDepInfo(const std::string& data) {
  struct A : core::DependencyInfoParser::ParseActions {
    std::string out;
    void error(const char* message, uint64_t position) override {
      int c = diCode(message);
      add(out, "X " + std::to_string(c) + " " + std::to_string((unsigned long long)position) +
                   (c == 99 ? " " + hex(std::string(message)) : std::string()));
    }
    void actOnVersion(StringRef s) override { add(out, "V " + hex(s.str())); }
    void actOnInput(StringRef s) override { add(out, "I " + hex(s.str())); }
    void actOnOutput(StringRef s) override { add(out, "O " + hex(s.str())); }
    void actOnMissing(StringRef s) override { add(out, "M " + hex(s.str())); }
  } a;
  ExactBuf b(data);
  core::DependencyInfoParser(b.ref(), a).parse();
  return a.out.empty() ? "." : a.out;
}

// the statements of ShellCommand::processMakefileDiscoveredDependencies::DepsActions::actOnRuleDependency
// (lib/BuildSystem/ShellCommand.cpp) that compute the node name, applied to (workingDirectory, unescapedWord)
static std::string gluePath(const std::string& workingDirectory, const std::string& word) {
  StringRef unescapedWord(word);
  if (llvm::sys::path::is_absolute(unescapedWord)) return word;
  llvm::SmallString<PATH_MAX> absPath = StringRef(workingDirectory);
  llvm::sys::path::append(absPath, unescapedWord);
  llvm::sys::fs::make_absolute(absPath);
  return absPath.str().str();
}

static std::string handle(const SV& t) {
  const std::string& c = t[0];
  if (c == "makedeps" && t.size() == 3) return runMakeDeps(t[1] == "1", unhex(t[2]));
  if (c == "depinfo" && t.size() == 2) return runDepInfo(unhex(t[1]));
  if (c == "is_absolute" && t.size() == 2) return llvm::sys::path::is_absolute(StringRef(unhex(t[1]))) ? "1" : "0";
  if (c == "abspath" && t.size() == 4) return hex(gluePath(unhex(t[2]), unhex(t[3])));
  if (c == "make_absolute" && t.size() == 3) {
    std::string s = unhex(t[2]); llvm::SmallString<PATH_MAX> p = StringRef(s);
    llvm::sys::fs::make_absolute(p); return hex(p.str().str());
  }
  if (c == "cwd") { llvm::SmallString<PATH_MAX> p; llvm::sys::fs::current_path(p); return hex(p.str().str()); }
  return "ERR unknown";
}
int main() {
  std::string line;
  while (std::getline(std::cin, line)) {
    if (line.empty()) { puts(""); fflush(stdout); continue; }
    std::string r = handle(split(line, ' '));
    fputs(r.c_str(), stdout); fputc('\n', stdout); fflush(stdout);
  }
  return 0;
}
