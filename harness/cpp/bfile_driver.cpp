// Build-description / whole-manifest loading driver (C19, area bfile).  One request per line:
//   tree <hexpath>       parse the YAML file with llvm's YAML parser exactly as BuildFile.cpp obtains it and print the abstract
//                        tree in the model's encoding:  "T <failed 0|1> D<ndocs> <node>..."  with
//                        node ::= S<hex> | B<hex> | A<hex> | N | X | M<n> (<key node> <value node>)^n | Q<n> <node>^n
//                        (S scalar after unescaping, B block scalar, A alias, N null, X = nullptr handed out by the YAML parser
//                        after a scanner error: the dump stops at the first X, exactly where a client that looks at every node stops)
//   load <hexpath>       the REAL BuildFile::load() with a delegate that accepts every tool / attribute (like `llbuild buildsystem
//                        parse`) -> "OK|ERR <codes,..|.> <ntools> <ntargets> <nnodes> <ncommands> <hex default target> P<pos,..|.>"
//                        one code and one position per error callback, in order: code = the message text looked up in a table
//                        (99 = text not in the table; the check then ignores the code), position = offset of the token the
//                        error is attached to ("-" = none).  The counts are those of the description (OK) or of what the
//                        delegate had been handed when the load failed (ERR): lookupTool, loadedTarget (distinct names),
//                        createNode, loadedCommand, loadedDefaultTarget.
//   loadreal <hexpath>   the REAL BuildSystem::loadDescription() (built-in tools shell, phony, clang, mkdir, symlink, archive,
//                        shared-library, stale-file-removal, swift-compiler; client "basic" version 0) -> "OK|ERR <nerrors> <first message hex>"
//   ninja_load <hexpath> the REAL ninja::ManifestLoader; every file (main, include, subninja) is handed over in an EXACT-SIZE
//                        malloc'ed buffer WITHOUT terminator -> "OK|NULL <ncommands> <nerrors> <nfiles read> <first message hex>"
#include "common.h"
#include "llbuild/BuildSystem/BuildFile.h"
#include "llbuild/BuildSystem/BuildDescription.h"
#include "llbuild/BuildSystem/BuildSystem.h"
#include "llbuild/BuildSystem/BuildKey.h"
#include "llbuild/BuildSystem/BuildValue.h"
#include "llbuild/BuildSystem/Command.h"
#include "llbuild/BuildSystem/Tool.h"
#include "llbuild/Basic/FileSystem.h"
#include "llbuild/Basic/ExecutionQueue.h"
#include "llbuild/Ninja/Manifest.h"
#include "llbuild/Ninja/ManifestLoader.h"
#include "llbuild/Ninja/Lexer.h"
#include "llbuild/Ninja/Parser.h"
#include "llvm/ADT/SmallString.h"
#include "llvm/ADT/StringMap.h"
#include "llvm/Support/MemoryBuffer.h"
#include "llvm/Support/SourceMgr.h"
#include "llvm/Support/YAMLParser.h"
#include "llvm/Support/raw_ostream.h"
#include <fstream>
#include <memory>
using namespace llbuild;
using namespace llbuild::buildsystem;
using llvm::StringRef;
using llvm::Twine;
using llvm::ArrayRef;
using llvm::SmallVectorImpl;

static bool readAll(const std::string& path, std::string& out) {
  std::ifstream f(path, std::ios::binary);
  if (!f) return false;
  std::stringstream ss; ss << f.rdbuf(); out = ss.str(); return true;
}

// ------------------------------------------------------------------ tree
namespace {
struct TNode { char kind; std::string val; std::vector<TNode> kids; };   // M: kids = k0 v0 k1 v1 ...
struct Dumper {
  bool aborted = false;
  TNode absent() { aborted = true; TNode t; t.kind = 'X'; return t; }
  TNode dump(llvm::yaml::Node* n) {
    TNode t;
    if (!n) return absent();
    switch (n->getType()) {
    case llvm::yaml::Node::NK_Scalar: {
      llvm::SmallString<256> storage;
      t.kind = 'S'; t.val = static_cast<llvm::yaml::ScalarNode*>(n)->getValue(storage).str(); return t; }
    case llvm::yaml::Node::NK_BlockScalar:
      t.kind = 'B'; t.val = static_cast<llvm::yaml::BlockScalarNode*>(n)->getValue().str(); return t;
    case llvm::yaml::Node::NK_Alias:
      t.kind = 'A'; t.val = static_cast<llvm::yaml::AliasNode*>(n)->getName().str(); return t;
    case llvm::yaml::Node::NK_Mapping: {
      t.kind = 'M';
      auto* m = static_cast<llvm::yaml::MappingNode*>(n);
      for (auto it = m->begin(); it != m->end(); ++it) {
        llvm::yaml::Node* k = it->getKey();
        if (!k) { t.kids.push_back(absent()); t.kids.push_back(absent()); return t; }   // getValue() would dereference the null key
        t.kids.push_back(dump(k));
        if (aborted) { TNode x; x.kind = 'X'; t.kids.push_back(x); return t; }
        llvm::yaml::Node* v = it->getValue();
        t.kids.push_back(dump(v));
        if (aborted) return t;
      }
      return t; }
    case llvm::yaml::Node::NK_Sequence: {
      t.kind = 'Q';
      auto* s = static_cast<llvm::yaml::SequenceNode*>(n);
      for (auto it = s->begin(); it != s->end(); ++it) {
        t.kids.push_back(dump(&*it));
        if (aborted) return t;
      }
      return t; }
    default:
      t.kind = 'N'; return t;
    }
  }
};
static void show(const TNode& t, std::string& out) {
  out += ' '; out += t.kind;
  switch (t.kind) {
  case 'S': case 'B': case 'A': out += hex(t.val); break;
  case 'M': out += std::to_string(t.kids.size() / 2); for (auto& k : t.kids) show(k, out); break;
  case 'Q': out += std::to_string(t.kids.size()); for (auto& k : t.kids) show(k, out); break;
  default: break;
  }
}
}

static std::string doTree(const std::string& path) {
  auto fs = basic::createLocalFileSystem();
  auto input = fs->getFileContents(path);
  if (!input) return "ERR open";
  llvm::SourceMgr sm;
  sm.setDiagHandler([](const llvm::SMDiagnostic&, void*) {}, nullptr);
  llvm::yaml::Stream stream(input->getMemBufferRef(), sm);
  std::vector<TNode> docs;
  Dumper d;
  for (auto it = stream.begin(); it != stream.end(); ) {
    llvm::yaml::Node* root = it->getRoot();
    docs.push_back(d.dump(root));
    if (d.aborted) break;        // ++it would call Root->skip() on a null root / re-walk a failed stream
    ++it;
    if (docs.size() >= 64) break;
  }
  std::string out = std::string("T ") + (stream.failed() ? "1" : "0") + " D" + std::to_string(docs.size());
  for (auto& t : docs) show(t, out);
  return out;
}

// ------------------------------------------------------------------ load (accept-everything delegate, as `buildsystem parse`)
static bool starts(StringRef s, const char* p) { return s.startswith(p); }
static bool ends(StringRef s, const char* p) { return s.endswith(p); }
static int bfCode(StringRef m) {
  struct E { const char* msg; int code; };
  static const E exact[] = {
    {"unexpected top-level node", 1}, {"expected initial mapping key 'client'", 2},
    {"unexpected 'client' value (expected map)", 3}, {"unexpected 'tools' value (expected map)", 4},
    {"unexpected 'targets' value (expected map)", 5}, {"unexpected 'default' target value (expected scalar)", 6},
    {"unexpected 'nodes' value (expected map)", 7}, {"unexpected 'commands' value (expected map)", 8},
    {"unexpected trailing top-level section", 9}, {"missing document in stream", 10},
    {"unexpected additional document in stream", 11},
    {"unable to parse the build file (malformed YAML)", 13},
    {"invalid key type in 'client' map", 20}, {"invalid value type in 'client' map", 21},
    {"invalid version number in 'client' map", 22}, {"unable to configure client", 23},
    {"invalid key type in 'tools' map", 30}, {"invalid value type in 'tools' map", 31},
    {"invalid key type for tool in 'tools' map", 33}, {"invalid value type for tool in 'tools' map", 36},
    {"invalid key type in 'targets' map", 40}, {"invalid value type in 'targets' map", 41}, {"invalid node type in 'targets' map", 42},
    {"invalid default target, a default target should be in targets", 45},
    {"invalid key type in 'nodes' map", 50}, {"invalid value type in 'nodes' map", 51},
    {"invalid key type for node in 'nodes' map", 53}, {"invalid value type for node in 'nodes' map", 56},
    {"invalid key type in 'commands' map", 60}, {"invalid value type in 'commands' map", 61},
    {"duplicate command in 'commands' map", 62}, {"missing 'tool' key for command in 'command' map", 63},
    {"expected 'tool' initial key for command in 'commands' map", 64},
    {"invalid 'tool' value type for command in 'commands' map", 65}, {"tool failed to create a command", 66},
    {"invalid value type for 'inputs' command key", 67}, {"invalid node type in 'inputs' command key", 68},
    {"invalid value type for 'outputs' command key", 69}, {"invalid node type in 'outputs' command key", 70},
    {"invalid value type for 'description' command key", 71}, {"invalid value type for command in 'commands' map", 76},
  };
  for (auto& e : exact) if (m == e.msg) return e.code;
  if (starts(m, "invalid tool (") && ends(m, ") type in 'tools' map")) return 32;
  if (starts(m, "invalid key type for '") && ends(m, "' in 'tools' map")) return 34;
  if (starts(m, "invalid value type for '") && ends(m, "' in 'tools' map")) return 35;
  if (starts(m, "invalid key type for '") && ends(m, "' in 'nodes' map")) return 54;
  if (starts(m, "invalid value type for '") && ends(m, "' in 'nodes' map")) return 55;
  if (starts(m, "invalid key type for '") && ends(m, "' in 'commands' map")) return 74;
  if (starts(m, "invalid value type for '") && ends(m, "' in 'commands' map")) return 75;
  if (starts(m, "unable to open '")) return 12;
  return 99;
}

namespace {
class DNode : public Node {
public:
  using Node::Node;
  bool configureAttribute(const ConfigureContext&, StringRef, StringRef) override { return true; }
  bool configureAttribute(const ConfigureContext&, StringRef, ArrayRef<StringRef>) override { return true; }
  bool configureAttribute(const ConfigureContext&, StringRef, ArrayRef<std::pair<StringRef, StringRef>>) override { return true; }
};
class DCommand : public Command {
public:
  using Command::Command;
  void getShortDescription(SmallVectorImpl<char>& r) const override { llvm::raw_svector_ostream(r) << "<dummy>"; }
  void getVerboseDescription(SmallVectorImpl<char>& r) const override { llvm::raw_svector_ostream(r) << "<dummy>"; }
  void configureDescription(const ConfigureContext&, StringRef) override {}
  void configureInputs(const ConfigureContext&, const std::vector<Node*>&) override {}
  void configureOutputs(const ConfigureContext&, const std::vector<Node*>&) override {}
  bool configureAttribute(const ConfigureContext&, StringRef, StringRef) override { return true; }
  bool configureAttribute(const ConfigureContext&, StringRef, ArrayRef<StringRef>) override { return true; }
  bool configureAttribute(const ConfigureContext&, StringRef, ArrayRef<std::pair<StringRef, StringRef>>) override { return true; }
  BuildValue getResultForOutput(Node*, const BuildValue&) override { return BuildValue::makeMissingInput(); }
  bool isResultValid(BuildSystem&, const BuildValue&) override { return false; }
  void start(BuildSystem&, core::TaskInterface) override {}
  void providePriorValue(BuildSystem&, core::TaskInterface, const BuildValue&) override {}
  void provideValue(BuildSystem&, core::TaskInterface, uintptr_t, const core::KeyType&, const BuildValue&) override {}
  void execute(BuildSystem&, core::TaskInterface, basic::QueueJobContext*, ResultFn fn) override { fn(BuildValue::makeFailedCommand()); }
};
class DTool : public Tool {
public:
  using Tool::Tool;
  bool configureAttribute(const ConfigureContext&, StringRef, StringRef) override { return true; }
  bool configureAttribute(const ConfigureContext&, StringRef, ArrayRef<StringRef>) override { return true; }
  bool configureAttribute(const ConfigureContext&, StringRef, ArrayRef<std::pair<StringRef, StringRef>>) override { return true; }
  std::unique_ptr<Command> createCommand(StringRef name) override { return std::unique_ptr<Command>(new DCommand(name)); }
};
class DDelegate : public BuildFileDelegate {
  std::unique_ptr<basic::FileSystem> fs;
  llvm::StringMap<bool> interned;
public:
  std::vector<int> codes;
  std::vector<long> positions;          // offset of the token an error is attached to, -1 = the callback carried no position
  std::vector<std::string> other;
  StringRef buffer;
  bool badPosition = false;
  // what has been delivered to the delegate so far (observable also when the load fails)
  unsigned ntools = 0, nnodes = 0, ncommands = 0; llvm::StringMap<bool> targets; std::string defaultTarget;
  DDelegate() : fs(basic::createLocalFileSystem()) {}
  StringRef getInternedString(StringRef v) override { return interned.insert(std::make_pair(v, true)).first->getKey(); }
  basic::FileSystem& getFileSystem() override { return *fs; }
  void setFileContentsBeingParsed(StringRef b) override { buffer = b; }
  void error(StringRef, const BuildFileToken& at, const Twine& message) override {
    std::string m = message.str();
    int c = bfCode(m);
    codes.push_back(c);
    if (c == 99) other.push_back(m);
    positions.push_back(at.start && at.start >= buffer.begin() && at.start <= buffer.end() ? long(at.start - buffer.begin()) : -1);
    // a reported position must lie inside the buffer being parsed (the command-line tool walks from the start of the buffer to it)
    if (at.start && !(at.start >= buffer.begin() && at.start + at.length <= buffer.end())) badPosition = true;
  }
  void cannotLoadDueToMultipleProducers(Node*, std::vector<Command*>) override { codes.push_back(98); positions.push_back(-1); }
  bool configureClient(const ConfigureContext&, StringRef, uint32_t, const property_list_type&) override { return true; }
  std::unique_ptr<Tool> lookupTool(StringRef name) override { ++ntools; return std::unique_ptr<Tool>(new DTool(name)); }
  void loadedTarget(StringRef name, const Target&) override { targets[name] = true; }
  void loadedDefaultTarget(StringRef t) override { defaultTarget = t.str(); }
  void loadedCommand(StringRef, const Command&) override { ++ncommands; }
  std::unique_ptr<Node> createNode(StringRef name, bool) override { ++nnodes; return std::unique_ptr<Node>(new DNode(name)); }
};
}

static std::string doLoad(const std::string& path) {
  DDelegate d;
  std::string out;
  {
    BuildFile bf(path, d);
    std::unique_ptr<BuildDescription> desc = bf.load();
    std::string codes;
    for (size_t i = 0; i < d.codes.size(); i++) { if (i) codes += ","; codes += std::to_string(d.codes[i]); }
    if (codes.empty()) codes = ".";
    // counts: of the description when there is one, else of what the delegate was handed before the failure
    std::string observed = std::to_string(d.ntools) + " " + std::to_string(d.targets.size()) + " " + std::to_string(d.nnodes) + " " +
                           std::to_string(d.ncommands) + " " + hex(d.defaultTarget);
    std::string pos = "P";
    for (size_t i = 0; i < d.positions.size(); i++) { if (i) pos += ","; pos += d.positions[i] < 0 ? std::string("-") : std::to_string(d.positions[i]); }
    if (d.positions.empty()) pos += ".";
    if (desc) {
      std::string sizes = std::to_string(desc->getTools().size()) + " " + std::to_string(desc->getTargets().size()) + " " +
            std::to_string(desc->getNodes().size()) + " " + std::to_string(desc->getCommands().size()) + " " + hex(desc->getDefaultTarget());
      out = "OK " + codes + " " + sizes + " " + pos;
      if (sizes != observed) out += " OBSERVED:" + std::to_string(d.ntools) + "/" + std::to_string(d.targets.size()) + "/" + std::to_string(d.nnodes) + "/" + std::to_string(d.ncommands);
    } else {
      out = "ERR " + codes + " " + observed + " " + pos;
    }
    if (d.badPosition) out += " BADPOS";
    for (auto& m : d.other) out += " OTHER:" + hex(m);
  }
  return out;
}

// ------------------------------------------------------------------ loadreal (the built-in tools)
namespace {
class RDelegate : public BuildSystemDelegate {
public:
  unsigned nerrors = 0; std::string first;
  RDelegate() : BuildSystemDelegate("basic", 0) {}
  void setFileContentsBeingParsed(StringRef) override {}
  void error(StringRef, const Token&, const Twine& message) override { if (!nerrors++) first = message.str(); }
  std::unique_ptr<Tool> lookupTool(StringRef) override { return nullptr; }
  std::unique_ptr<basic::ExecutionQueue> createExecutionQueue() override { return nullptr; }
  void hadCommandFailure() override {}
  void commandStatusChanged(Command*, CommandStatusKind) override {}
  void commandPreparing(Command*) override {}
  bool shouldCommandStart(Command*) override { return true; }
  void commandStarted(Command*) override {}
  void commandHadError(Command*, StringRef) override {}
  void commandHadNote(Command*, StringRef) override {}
  void commandHadWarning(Command*, StringRef) override {}
  void commandFinished(Command*, basic::ProcessStatus) override {}
  void commandFoundDiscoveredDependency(Command*, StringRef, DiscoveredDependencyKind) override {}
  void commandCannotBuildOutputDueToMissingInputs(Command*, Node*, ArrayRef<BuildKey>) override {}
  Command* chooseCommandFromMultipleProducers(Node*, std::vector<Command*>) override { return nullptr; }
  void cannotBuildNodeDueToMultipleProducers(Node*, std::vector<Command*>) override { if (!nerrors++) first = "multiple producers"; }
  void determinedRuleNeedsToRun(core::Rule*, core::Rule::RunReason, core::Rule*) override {}
};
}

static std::string doLoadReal(const std::string& path) {
  RDelegate d;
  bool ok;
  {
    BuildSystem system(d, basic::createLocalFileSystem());
    ok = system.loadDescription(path);
  }
  return std::string(ok ? "OK " : "ERR ") + std::to_string(d.nerrors) + " " + hex(d.first);
}

// ------------------------------------------------------------------ ninja_load
namespace {
// exact-size heap storage, no terminator: the first byte after the data is outside the allocation.
class ExactBuffer : public llvm::MemoryBuffer {
  char* base; std::string id;
public:
  ExactBuffer(const std::string& data, StringRef name) : id(name.str()) {
    size_t n = data.size();
    if (n) { base = (char*)malloc(n); memcpy(base, data.data(), n); init(base, base + n, false); }
    else { base = (char*)malloc(1); init(base + 1, base + 1, false); }     // empty: begin == end == one past a 1-byte block
  }
  ~ExactBuffer() override { free(base); }
  StringRef getBufferIdentifier() const override { return id; }
  BufferKind getBufferKind() const override { return MemoryBuffer_Malloc; }
};
class NActions : public ninja::ManifestLoaderActions {
public:
  ninja::ManifestLoader* loader = nullptr;
  unsigned nerrors = 0, nfiles = 0; std::string first; bool badPosition = false;
  void initialize(ninja::ManifestLoader* l) override { loader = l; }
  void error(StringRef, StringRef message, const ninja::Token& at) override {
    if (!nerrors++) first = message.str();
    // what `llbuild ninja load-manifest` does with it: the token must lie inside the current parser's buffer
    const ninja::Parser* p = loader ? loader->getCurrentParser() : nullptr;
    if (p) {
      StringRef b = p->getLexer().getBuffer();
      if (!(at.start >= b.begin() && at.start + at.length <= b.end())) badPosition = true;
    }
  }
  std::unique_ptr<llvm::MemoryBuffer> readFile(StringRef path, StringRef, const ninja::Token*) override {
    std::string data;
    if (!readAll(path.str(), data)) { if (!nerrors++) first = "unable to read"; return nullptr; }
    ++nfiles;
    return std::unique_ptr<llvm::MemoryBuffer>(new ExactBuffer(data, path));
  }
};
}

static std::string doNinjaLoad(const std::string& path) {
  size_t pos = path.find_last_of('/');
  std::string dir = pos == std::string::npos ? "." : path.substr(0, pos);
  std::string file = pos == std::string::npos ? path : path.substr(pos + 1);
  NActions a;
  size_t ncommands = 0; bool got;
  {
    ninja::ManifestLoader loader(dir, file, a);
    std::unique_ptr<ninja::Manifest> m = loader.load();
    got = (bool)m;
    if (m) ncommands = m->getCommands().size();
  }
  return std::string(got ? "OK " : "NULL ") + std::to_string(ncommands) + " " + std::to_string(a.nerrors) + " " +
         std::to_string(a.nfiles) + " " + hex(a.first) + (a.badPosition ? " BADPOS" : "");
}

static std::string handle(const SV& t) {
  const std::string& c = t[0];
  if (t.size() == 2) {
    std::string path = unhex(t[1]);
    if (c == "tree") return doTree(path);
    if (c == "load") return doLoad(path);
    if (c == "loadreal") return doLoadReal(path);
    if (c == "ninja_load") return doNinjaLoad(path);
  }
  return "ERR unknown";
}
int main() {
  std::string line;
  while (std::getline(std::cin, line)) {
    if (line.empty()) { puts(""); fflush(stdout); continue; }
    std::string r = handle(split(line, ' '));
    fputs(r.c_str(), stdout); fputc('\n', stdout); fflush(stdout);
  }
  return 0;
}
