// Driver for the Ninja manifest parser and loader (llbuild::ninja::Parser, ManifestLoader, Manifest).
// Line protocol (see common.h): one request per line, one answer line.  Byte strings are hex ("-" = empty).
//
//   ast <out file> <wd> <main> <rel path>...
//        runs the REAL Lexer + Parser with a recording ParseActions over every listed file that can be read
//        (path = make_absolute(wd, rel), as ManifestLoader::enterFile computes it) and writes the AST dump the
//        model reads (format: ocaml/vmodel_ninjaeval.ml) to <out file>; answers "OK <number of files>".
//   load <wd> <main>
//        runs the REAL ManifestLoader (working directory <wd>, main file <main>, files read from disk) and answers
//        with the canonical manifest dump on one line (format: ocaml/vmodel_ninjaeval.ml), errors mapped to the
//        model's enumeration (unknown message -> "E 99 <hex text>").
//   norm <wd> <path>      Manifest::normalize_path -> hex | NONE
//
// Nothing is sorted that the code orders: commands, defaults and errors are in program order; the StringMaps
// (root bindings, root rules, rule variables, pools) are sorted by key.
#include "common.h"
#include "llbuild/Ninja/Lexer.h"
#include "llbuild/Ninja/Parser.h"
#include "llbuild/Ninja/Manifest.h"
#include "llbuild/Ninja/ManifestLoader.h"
#include "llvm/ADT/SmallString.h"
#include "llvm/Support/FileSystem.h"
#include "llvm/Support/MemoryBuffer.h"
#include "llvm/Support/Path.h"
#include <algorithm>
#include <cstdlib>
#include <fstream>
#include <map>
using namespace llbuild;

static std::string tokText(const ninja::Token& t) { return std::string(t.start, t.length); }

// ---------------------------------------------------------------- error messages -> enumeration

static int parseErrorCode(StringRef m) {
  static const char* msgs[] = { "unexpected token", "expected variable name", "expected '=' token", "expected variable value",
                                "expected newline token", "expected target path string", "expected path string",
                                "expected output path string", "expected ':' token", "expected rule name identifier",
                                "expected pool name identifier" };
  for (int i = 0; i < 11; i++) if (m == msgs[i]) return i + 1;
  return 0;
}

static int evalErrorCode(StringRef m) {
  if (m == "invalid '$'-escape at end of string") return 1;
  if (m == "invalid variable reference in string (missing trailing '}')") return 2;
  if (m == "invalid variable name in reference") return 3;
  if (m == "invalid '$'-escape (literal '$' should be written as '$$')") return 4;
  return 0;
}

// "E <code> <arg>"
static std::string errorRecord(StringRef m) {
  if (int c = evalErrorCode(m)) return "E " + std::to_string(c) + " -";
  if (int c = parseErrorCode(m)) return "E " + std::to_string(50 + c) + " -";
  auto quoted = [&](StringRef prefix, StringRef suffix, std::string& arg) {
    if (!m.startswith(prefix) || !m.endswith(suffix) || m.size() < prefix.size() + suffix.size()) return false;
    arg = m.substr(prefix.size(), m.size() - prefix.size() - suffix.size()).str();
    return true;
  };
  size_t p = m.rfind(" during evaluation of '");
  if (p != StringRef::npos && m.endswith("'")) {
    if (int c = evalErrorCode(m.substr(0, p))) {
      StringRef v = m.substr(p + 23, m.size() - p - 24);
      return "E " + std::to_string(10 + c) + " " + hex(v.str());
    }
  }
  std::string a;
  if (quoted("cycle in rule variable '", "'", a)) return "E 20 " + hex(a);
  if (m == "unknown target name") return "E 21 -";
  if (m == "unknown rule") return "E 22 -";
  if (m == "empty output path") return "E 23 -";
  if (m == "empty input path") return "E 24 -";
  if (quoted("invalid 'deps' style '", "'", a)) return "E 25 " + hex(a);
  if (m == "invalid 'depfile' attribute with selected 'deps' style") return "E 26 -";
  if (m == "missing 'depfile' attribute with selected 'deps' style") return "E 27 -";
  if (quoted("unknown pool '", "'", a)) return "E 28 " + hex(a);
  if (m == "duplicate pool") return "E 29 -";
  if (m == "invalid depth") return "E 30 -";
  if (m == "unexpected variable") return "E 31 -";
  if (m == "missing 'depth' variable assignment") return "E 32 -";
  if (m == "duplicate rule") return "E 33 -";
  if (m == "missing 'command' variable assignment") return "E 34 -";
  if (m == "include nesting too deep") return "E 36 -";
  if (m == "recursive include") return "E 37 -";
  return "E 99 " + hex(m.str());
}

// ---------------------------------------------------------------- ast: recording ParseActions

namespace {
class Recorder : public ninja::ParseActions {
public:
  std::ostream& os;
  bool inBlock = false;
  explicit Recorder(std::ostream& os) : os(os) {}

  static std::string toks(ArrayRef<ninja::Token> l, size_t from, size_t to) {
    SV v; for (size_t i = from; i < to; i++) v.push_back(tokText(l[i]));
    return enlist(v);
  }
  void error(StringRef message, const ninja::Token& at) override {
    int c = parseErrorCode(message);
    os << (inBlock ? "e " : "E ") << (c ? c : 49) << "\n";
  }
  void initialize(ninja::Parser*) override {}
  void actOnBeginManifest(StringRef) override {}
  void actOnEndManifest() override {}
  void actOnBindingDecl(const ninja::Token& n, const ninja::Token& v) override {
    os << "B " << hex(tokText(n)) << " " << hex(tokText(v)) << "\n";
  }
  void actOnDefaultDecl(ArrayRef<ninja::Token> names) override { os << "D " << toks(names, 0, names.size()) << "\n"; }
  void actOnIncludeDecl(bool isInclude, const ninja::Token& p) override {
    os << "I " << (isInclude ? 1 : 0) << " " << hex(tokText(p)) << "\n";
  }
  BuildResult actOnBeginBuildDecl(const ninja::Token& name, ArrayRef<ninja::Token> outs, ArrayRef<ninja::Token> ins,
                                  unsigned nEx, unsigned nIm) override {
    os << "U " << hex(tokText(name)) << " " << toks(outs, 0, outs.size()) << " " << toks(ins, 0, nEx) << " "
       << toks(ins, nEx, nEx + nIm) << " " << toks(ins, nEx + nIm, ins.size()) << "\n";
    inBlock = true; return this;
  }
  void binding(const ninja::Token& n, const ninja::Token& v) { os << "b " << hex(tokText(n)) << " " << hex(tokText(v)) << "\n"; }
  void endBlock() { os << "end\n"; inBlock = false; }
  void actOnBuildBindingDecl(BuildResult, const ninja::Token& n, const ninja::Token& v) override { binding(n, v); }
  void actOnEndBuildDecl(BuildResult, const ninja::Token&) override { endBlock(); }
  PoolResult actOnBeginPoolDecl(const ninja::Token& n) override { os << "P " << hex(tokText(n)) << "\n"; inBlock = true; return this; }
  void actOnPoolBindingDecl(PoolResult, const ninja::Token& n, const ninja::Token& v) override { binding(n, v); }
  void actOnEndPoolDecl(PoolResult, const ninja::Token&) override { endBlock(); }
  RuleResult actOnBeginRuleDecl(const ninja::Token& n) override { os << "R " << hex(tokText(n)) << "\n"; inBlock = true; return this; }
  void actOnRuleBindingDecl(RuleResult, const ninja::Token& n, const ninja::Token& v) override { binding(n, v); }
  void actOnEndRuleDecl(RuleResult, const ninja::Token&) override { endBlock(); }
};
}

static std::string absolutePath(const std::string& wd, const std::string& rel) {
  SmallString<256> path(rel);
  llvm::sys::fs::make_absolute(wd, path);
  return path.str().str();
}

static std::string doAst(const SV& a) {
  if (a.size() < 4) return "ERR args";
  std::ofstream os(a[1], std::ios::binary | std::ios::trunc);
  if (!os) return "ERR cannot write " + a[1];
  std::string wd = unhex(a[2]), mainFile = unhex(a[3]);
  os << "W " << hex(wd) << "\n" << "M " << hex(mainFile) << "\n";
  unsigned n = 0;
  for (size_t i = 4; i < a.size(); i++) {
    std::string path = absolutePath(wd, unhex(a[i]));
    auto buf = llvm::MemoryBuffer::getFile(path);
    if (!buf) continue;
    os << "F " << hex(path) << "\n";
    Recorder rec(os);
    ninja::Parser parser((*buf)->getBuffer(), rec);
    parser.parse();
    ++n;
  }
  os.close();
  return "OK " + std::to_string(n);
}

// ---------------------------------------------------------------- load: the real ManifestLoader

namespace {
class LoadActions : public ninja::ManifestLoaderActions {
public:
  SV errors;
  void initialize(ninja::ManifestLoader*) override {}
  void error(StringRef, StringRef message, const ninja::Token&) override { errors.push_back(errorRecord(message)); }
  std::unique_ptr<llvm::MemoryBuffer> readFile(StringRef path, StringRef, const ninja::Token*) override {
    auto buf = llvm::MemoryBuffer::getFile(path);
    if (!buf) { errors.push_back("E 35 -"); return nullptr; }
    return std::move(*buf);
  }
};
}

static std::string showNode(const ninja::Node* n) {
  if (!n) return "NULL";
  return hex(n->getCanonicalPath()) + ":" + hex(n->getScreenPath());
}
template <class It> static std::string showNodes(It b, It e) {
  if (b == e) return ".";
  std::string r; for (It i = b; i != e; ++i) { if (i != b) r += ","; r += showNode(*i); }
  return r;
}
static std::string showVars(const llvm::StringMap<std::string>& m) {
  std::vector<std::pair<std::string, std::string>> v;
  for (auto& e : m) v.push_back({ e.getKey().str(), e.getValue() });
  std::sort(v.begin(), v.end());
  if (v.empty()) return ".";
  std::string r;
  for (size_t i = 0; i < v.size(); i++) { if (i) r += ","; r += hex(v[i].first) + "=" + hex(v[i].second); }
  return r;
}

static std::string doLoad(const SV& a) {
  if (a.size() != 3) return "ERR args";
  std::string wd = unhex(a[1]), mainFile = unhex(a[2]);
  LoadActions actions;
  ninja::ManifestLoader loader(wd, mainFile, actions);
  std::unique_ptr<ninja::Manifest> m = loader.load();
  SV rec;
  rec.push_back(m ? "L 1" : "L 0");
  if (m) {
    std::vector<std::pair<std::string, std::string>> bs;
    for (auto& e : m->getRootScope().getBindings()) bs.push_back({ e.getKey().str(), e.getValue() });
    std::sort(bs.begin(), bs.end());
    for (auto& b : bs) rec.push_back("V " + hex(b.first) + " " + hex(b.second));
    std::vector<std::pair<std::string, ninja::Rule*>> rs;
    for (auto& e : m->getRootScope().getRules()) rs.push_back({ e.getKey().str(), e.getValue() });
    std::sort(rs.begin(), rs.end(), [](const std::pair<std::string, ninja::Rule*>& x, const std::pair<std::string, ninja::Rule*>& y) { return x.first < y.first; });
    for (auto& r : rs) rec.push_back("R " + hex(r.first) + " " + showVars(r.second->getParameters()));
    std::vector<std::pair<std::string, ninja::Pool*>> ps;
    for (auto& e : m->getPools()) ps.push_back({ e.getKey().str(), e.getValue() });
    std::sort(ps.begin(), ps.end(), [](const std::pair<std::string, ninja::Pool*>& x, const std::pair<std::string, ninja::Pool*>& y) { return x.first < y.first; });
    for (auto& p : ps) rec.push_back("P " + hex(p.first) + " " + std::to_string(p.second->getDepth()));
    for (ninja::Command* c : m->getCommands()) {
      std::string s = "C " + hex(c->getRule()->getName());
      s += " " + showNodes(c->getOutputs().begin(), c->getOutputs().end());
      s += " " + showNodes(c->explicitInputs_begin(), c->explicitInputs_end());
      s += " " + showNodes(c->implicitInputs_begin(), c->implicitInputs_end());
      s += " " + showNodes(c->orderOnlyInputs_begin(), c->orderOnlyInputs_end());
      s += " " + hex(c->getCommandString()) + " " + hex(c->getDescription());
      s += " " + std::to_string(int(c->getDepsStyle())) + " " + hex(c->getDepsFile());
      s += " " + (c->getExecutionPool() ? hex(c->getExecutionPool()->getName()) : std::string("*"));
      s += std::string(" ") + (c->hasGeneratorFlag() ? "1" : "0") + " " + (c->hasRestatFlag() ? "1" : "0");
      s += " " + hex(c->getRspFile()) + " " + hex(c->getRspFileContent());
      rec.push_back(s);
    }
    rec.push_back("D " + showNodes(m->getDefaultTargets().begin(), m->getDefaultTargets().end()));
  } else {
    rec.push_back("D .");
  }
  for (auto& e : actions.errors) rec.push_back(e);
  std::string out;
  for (size_t i = 0; i < rec.size(); i++) { if (i) out += " ; "; out += rec[i]; }
  return out;
}

static std::string doNorm(const SV& a) {
  if (a.size() != 3) return "ERR args";
  SmallString<256> p(unhex(a[2]));
  if (!ninja::Manifest::normalize_path(unhex(a[1]), p)) return "NONE";
  return hex(p.str().str());
}

int main() {
  std::string line;
  while (std::getline(std::cin, line)) {
    SV a = split(line, ' ');
    std::string r;
    if (a.empty() || a[0].empty()) r = "";
    else if (a[0] == "ast") r = doAst(a);
    else if (a[0] == "load") r = doLoad(a);
    else if (a[0] == "norm") r = doNorm(a);
    else r = "ERR unknown " + a[0];
    fputs(r.c_str(), stdout); fputc('\n', stdout); fflush(stdout);
  }
  return 0;
}
