// Shared helpers for the line-protocol drivers (hex byte strings, lists).
#pragma once
#include <string>
#include <vector>
#include <cstdio>
#include <cstdint>
#include <cstring>
#include <iostream>
#include <sstream>
typedef std::vector<std::string> SV;
static inline SV split(const std::string& s, char c) {
  SV r; std::string cur;
  for (char ch : s) { if (ch == c) { r.push_back(cur); cur.clear(); } else cur += ch; }
  r.push_back(cur); return r;
}
static inline int hv(char c) { return c <= '9' ? c - '0' : (c | 32) - 'a' + 10; }
static inline std::string unhex(const std::string& s) {
  if (s == "-") return std::string();
  std::string r; r.reserve(s.size() / 2);
  for (size_t i = 0; i + 1 < s.size(); i += 2) r.push_back(char(hv(s[i]) * 16 + hv(s[i + 1])));
  return r;
}
static inline std::string hex(const std::string& s) {
  if (s.empty()) return "-";
  static const char* d = "0123456789abcdef"; std::string r;
  for (unsigned char c : s) { r.push_back(d[c >> 4]); r.push_back(d[c & 15]); }
  return r;
}
static inline std::string hex(const void* p, size_t n) { return hex(std::string((const char*)p, n)); }
static inline SV unlist(const std::string& s) {
  SV r; if (s == ".") return r;
  for (auto& x : split(s, ',')) r.push_back(unhex(x));
  return r;
}
static inline std::string enlist(const SV& l) {
  if (l.empty()) return ".";
  std::string r; for (size_t i = 0; i < l.size(); i++) { if (i) r += ","; r += hex(l[i]); }
  return r;
}
