// Build-system driver (property C10): drives the REAL buildsystem::BuildSystemFrontend on a build file with a
// delegate that does or does not cancel at the first failure, and probes the REAL getResultForOutput /
// isResultValid / provideValue+execute of real command instances obtained from a loaded description.
//
// Line protocol (one request per line, one answer line):
//   build <hexdir> <hexfile> <hexdb|-> <lanes (0 = serial)> <cancel 0|1> <hextarget|-> <skip: name,name|.>
//     -> "ok=<0|1> failures=<n> errors=<n> events=<e1,e2,...>"
//        events: P:<cmd> preparing, S:<cmd> started, F:<cmd>:<status> finished (0 ok 1 failed 2 cancelled 3 skipped),
//                H hadCommandFailure, M:<cmd>:<n> cannot build due to n missing inputs, Q:<cmd> shouldCommandStart,
//                E error reported, C cancel requested by the delegate
//   probe <hexdir> <hexfile>
//     -> "rfo <entries> | valid <entries> | inp <entries> | prior <entries>"   (see below)
//   open <hexdir> <hexfile> <hexdb|-> <lanes>     one BuildSystemFrontend kept alive for the following fbuild lines (C05)
//   fbuild <cancel-at|-> <delay-us> <thread-cancel-us|-> <hextarget|->
//     builds on the open frontend; cancel() is called from inside the <cancel-at>-th delegate callback of this build
//     (after sleeping <delay-us>), and/or from another thread <thread-cancel-us> after the build began
//     -> "ok=.. failures=.. errors=.. cancelled=<cancel was requested> ncb=<callbacks in this build>
//         late=<callbacks delivered while no build was running, since the previous build returned> events=..."
//        additional events: T:<cmd>:<kind> commandStatusChanged, X cancel requested from the callback
//   fcancel -> "cancelled"   cancel() requested on the open frontend while NO build is running
//   close -> "late=<n>"
//   openrec <hexdir> <hexfile> <hexdb|-> <lanes>  as open, but the frontend's FileSystem RECORDS remove() calls instead of removing
//     (every other operation goes to the local file system): stale paths directly under "/" can be exercised (C14)
//   removed -> "<hexpath or - for the empty path>,..." | "."     the remove() arguments recorded since the last call, in call order
#include "common.h"
#include "llbuild/Basic/ExecutionQueue.h"
#include "llbuild/Basic/FileInfo.h"
#include "llbuild/Basic/FileSystem.h"
#include "llbuild/BuildSystem/BuildDescription.h"
#include "llbuild/BuildSystem/BuildFile.h"
#include "llbuild/BuildSystem/BuildKey.h"
#include "llbuild/BuildSystem/BuildNode.h"
#include "llbuild/BuildSystem/BuildSystem.h"
#include "llbuild/BuildSystem/BuildSystemFrontend.h"
#include "llbuild/BuildSystem/BuildValue.h"
#include "llbuild/BuildSystem/Command.h"
#include "llbuild/BuildSystem/Tool.h"
#include "llbuild/Core/BuildEngine.h"
#include "llvm/Support/SourceMgr.h"
#include "llvm/Support/raw_ostream.h"
#include <mutex>
#include <atomic>
#include <thread>
#include <chrono>
#include <set>
#include <map>
#include <unistd.h>

using namespace llbuild;
using namespace llbuild::basic;
using namespace llbuild::buildsystem;
using llbuild::basic::FileInfo;

namespace {

class NullQueueDelegate : public ExecutionQueueDelegate {
  virtual void queueJobStarted(JobDescriptor*) override {}
  virtual void queueJobFinished(JobDescriptor*) override {}
  virtual void processStarted(ProcessContext*, ProcessHandle, llbuild_pid_t) override {}
  virtual void processHadError(ProcessContext*, ProcessHandle, const Twine&) override {}
  virtual void processHadOutput(ProcessContext*, ProcessHandle, StringRef) override {}
  virtual void processFinished(ProcessContext*, ProcessHandle, const ProcessResult&) override {}
};

/// Records delegate callbacks. With a frontend: used as is. Without one (probe): the execution queue is created here.
class DrvDelegate : public BuildSystemFrontendDelegate {
  using super = BuildSystemFrontendDelegate;
public:
  std::mutex mu;
  std::vector<std::string> events;
  std::map<std::string, Command*> commands;   // every command the system told us about
  std::set<std::string> skip;
  bool cancelOnFailure = false;
  bool haveFrontend = true;
  BuildSystem* directSystem = nullptr;         // probe mode: cancel goes here
  NullQueueDelegate nullQueueDelegate;
  unsigned failures = 0, errors = 0;

  DrvDelegate(llvm::SourceMgr& sm) : BuildSystemFrontendDelegate(sm, "basic", 0) {}

  // cancellation from inside the n-th callback of a build (C05)
  std::atomic<bool> inBuild{true};
  std::atomic<int> late{0};
  int cbCount = 0, cancelAt = 0, delayUs = 0;
  std::atomic<bool> cancelRequested{false};

  void ev(const std::string& s) {
    bool fire = false;
    {
      std::lock_guard<std::mutex> l(mu);
      if (!inBuild) { late++; events.push_back("LATE:" + s); return; }
      events.push_back(s);
      if (s != "X" && s != "C") { cbCount++; fire = (cancelAt != 0 && cbCount == cancelAt); }
    }
    if (fire) {
      if (delayUs > 0) std::this_thread::sleep_for(std::chrono::microseconds(delayUs));
      { std::lock_guard<std::mutex> l(mu); events.push_back("X"); }
      cancelRequested = true;
      cancel();
    }
  }
  void note(Command* c) { std::lock_guard<std::mutex> l(mu); commands[c->getName().str()] = c; }

  virtual std::unique_ptr<Tool> lookupTool(StringRef) override { return nullptr; }
  virtual void cycleDetected(const std::vector<core::Rule*>&) override { ev("CYCLE"); }

  virtual std::unique_ptr<ExecutionQueue> createExecutionQueue() override {
    if (haveFrontend) return super::createExecutionQueue();
    return std::unique_ptr<ExecutionQueue>(createLaneBasedExecutionQueue(
        nullQueueDelegate, 1, SchedulerAlgorithm::NamePriority, getDefaultQualityOfService(), nullptr));
  }
  virtual void error(StringRef filename, const Token& at, const Twine& message) override {
    { std::lock_guard<std::mutex> l(mu); errors++; events.push_back("E"); }
    if (haveFrontend) super::error("", Token{nullptr, 0}, message);   // counts the error inside the frontend
  }
  virtual void hadCommandFailure() override {
    { std::lock_guard<std::mutex> l(mu); failures++; events.push_back("H"); }
    super::hadCommandFailure();
    if (cancelOnFailure) { ev("C"); if (haveFrontend) cancel(); else if (directSystem) directSystem->cancel(); }
  }
  bool traceStatus = false;
  virtual void commandStatusChanged(Command* c, CommandStatusKind k) override {
    note(c);
    if (traceStatus) ev("T:" + c->getName().str() + ":" + std::to_string((int)k));
  }
  virtual void commandPreparing(Command* c) override { note(c); ev("P:" + c->getName().str()); }
  virtual bool shouldCommandStart(Command* c) override {
    ev("Q:" + c->getName().str());
    return skip.count(c->getName().str()) == 0;
  }
  virtual void commandStarted(Command* c) override { ev("S:" + c->getName().str()); }
  virtual void commandHadError(Command*, StringRef) override {}
  virtual void commandHadNote(Command*, StringRef) override {}
  virtual void commandHadWarning(Command*, StringRef) override {}
  virtual void commandFinished(Command* c, ProcessStatus st) override {
    ev("F:" + c->getName().str() + ":" + std::to_string((int)st));
  }
  virtual void commandCannotBuildOutputDueToMissingInputs(Command* c, Node*, ArrayRef<BuildKey> inputs) override {
    ev("M:" + c->getName().str() + ":" + std::to_string((int)inputs.size()));
  }
  virtual Command* chooseCommandFromMultipleProducers(Node*, std::vector<Command*>) override { return nullptr; }
  virtual void cannotBuildNodeDueToMultipleProducers(Node* n, std::vector<Command*>) override {
    ev("D:" + hex(n->getName().str()));
  }
  virtual void commandProcessHadError(Command*, ProcessHandle, const Twine&) override {}
  virtual void commandProcessHadOutput(Command*, ProcessHandle, StringRef) override {}
  virtual void commandProcessFinished(Command*, ProcessHandle, const ProcessResult&) override {}
};

std::string joinEvents(const std::vector<std::string>& ev) {
  if (ev.empty()) return ".";
  std::string r;
  for (size_t i = 0; i < ev.size(); i++) { if (i) r += ","; r += ev[i]; }
  return r;
}

std::string doBuild(const SV& t) {
  std::string dir = unhex(t[1]), file = unhex(t[2]), db = unhex(t[3]);
  int lanes = atoi(t[4].c_str());
  bool cancel = t[5] == "1";
  std::string target = unhex(t[6]);
  llvm::SourceMgr sm;
  BuildSystemInvocation inv{};
  inv.chdirPath = dir;
  inv.buildFilePath = file;
  inv.dbPath = db;
  inv.useSerialBuild = (lanes == 0);
  inv.schedulerLanes = lanes;
  DrvDelegate del(sm);
  del.cancelOnFailure = cancel;
  if (t[7] != ".") for (auto& s : split(t[7], ',')) del.skip.insert(s);
  bool ok;
  {
    BuildSystemFrontend fe(del, inv, createLocalFileSystem());
    ok = fe.build(target);
  }
  return std::string("ok=") + (ok ? "1" : "0") + " failures=" + std::to_string(del.getNumFailedCommands()) +
         " errors=" + std::to_string(del.getNumErrors()) + " events=" + joinEvents(del.events);
}

// ---- probe ----------------------------------------------------------------------------------------------

FileInfo someInfo(uint64_t salt) { FileInfo fi; memset(&fi, 0, sizeof(fi)); fi.inode = 7 + salt; fi.size = 3; fi.mode = 0100644; fi.modTime.seconds = 1000 + salt; return fi; }
FileInfo zeroInfo() { FileInfo fi; memset(&fi, 0, sizeof(fi)); return fi; }

// A command value of kind k for a command with nOut outputs; output `idx` is missing iff `miss`, all others the opposite.
BuildValue cmdValue(int k, unsigned nOut, unsigned idx, bool miss) {
  std::vector<FileInfo> infos;
  for (unsigned i = 0; i < (nOut ? nOut : 1); i++) infos.push_back((i == idx) == miss ? zeroInfo() : someInfo(i));
  switch (k) {
  case 7: return BuildValue::makeStaleFileRemoval(std::vector<std::string>{"x"});
  case 10: return BuildValue::makeSuccessfulCommand(infos);
  case 11: return BuildValue::makeFailedCommand();
  case 12: return BuildValue::makePropagatedFailureCommand();
  case 13: return BuildValue::makeCancelledCommand();
  case 14: return BuildValue::makeSkippedCommand();
  case 17: return BuildValue::makeSuccessfulCommandWithOutputSignature(infos, basic::CommandSignature(5));
  }
  return BuildValue::makeInvalid();
}

// A node value of kind k as delivered to provideValue.
BuildValue inputValue(int k) {
  switch (k) {
  case 1: return BuildValue::makeVirtualInput();
  case 2: return BuildValue::makeExistingInput(someInfo(1));
  case 3: return BuildValue::makeMissingInput();
  case 5: return BuildValue::makeDirectoryTreeSignature(basic::CommandSignature(3));
  case 6: return BuildValue::makeDirectoryTreeStructureSignature(basic::CommandSignature(4));
  case 7: return BuildValue::makeStaleFileRemoval(std::vector<std::string>{"x"});
  case 8: return BuildValue::makeMissingOutput();
  case 9: return BuildValue::makeFailedInput();
  case 10: return BuildValue::makeSuccessfulCommand(std::vector<FileInfo>{someInfo(1)});
  case 11: return BuildValue::makeFailedCommand();
  case 12: return BuildValue::makePropagatedFailureCommand();
  case 13: return BuildValue::makeCancelledCommand();
  case 14: return BuildValue::makeSkippedCommand();
  }
  return BuildValue::makeInvalid();
}

int nodeKindCode(BuildNode* n) {
  // 0 plain, 1 virtual, 2 command timestamp, 3 directory, 4 directory structure
  if (n->isCommandTimestamp()) return 2;
  if (n->isVirtual()) return 1;
  if (n->isDirectory()) return 3;
  if (n->isDirectoryStructure()) return 4;
  return 0;
}

const int CMD_KINDS[] = {7, 10, 11, 12, 13, 14, 17};
const int INPUT_KINDS[] = {1, 2, 3, 5, 6, 7, 8, 9, 10, 11, 12, 13, 14};

std::string doProbe(const SV& t) {
  std::string dir = unhex(t[1]), file = unhex(t[2]);
  if (::chdir(dir.c_str()) != 0) return "ERR chdir";
  llvm::SourceMgr sm;
  DrvDelegate del(sm);
  del.haveFrontend = false;
  BuildSystem system(del, createLocalFileSystem());
  del.directSystem = &system;
  if (!system.loadDescription(file)) return "ERR load";
  if (!system.build("")) return "ERR build";
  if (del.failures || del.errors) return "ERR probe build had failures: " + joinEvents(del.events);
  std::string out = "rfo";
  // (a) getResultForOutput of every captured command, for each of its outputs (the same node objects the
  //     build uses), every command value kind, output info missing or present
  for (auto& kv : del.commands) {
    Command* c = kv.second;
    // stale-file-removal keeps no outputs: its producer links exist on the nodes only
    std::vector<BuildNode*> outs(c->getOutputs().begin(), c->getOutputs().end());
    bool declared = !outs.empty();
    if (!declared) { BuildNode* n = system.lookupNode("<" + kv.first + ">"); if (n) outs.push_back(n); }
    for (unsigned i = 0; i < outs.size(); i++) {
      for (int k : CMD_KINDS) for (int miss = 0; miss < 2; miss++) {
        BuildValue v = cmdValue(k, declared ? outs.size() : 1, i, miss != 0);
        BuildValue r = c->getResultForOutput(outs[i], v);
        out += " " + kv.first + ":" + std::to_string(i) + ":" + std::to_string(nodeKindCode(outs[i])) + ":" +
               std::to_string(k) + ":" + std::to_string(miss) + ":" + std::to_string((int)r.getKind());
      }
    }
  }
  // (b) isResultValid of every captured command on every command value kind; successful values carry the
  //     present file-system state of the outputs (match = 1) or a perturbed one (match = 0)
  out += " | valid";
  for (auto& kv : del.commands) {
    Command* c = kv.second;
    auto& outs = c->getOutputs();
    for (int k : CMD_KINDS) for (int match = 0; match < 2; match++) {
      std::vector<FileInfo> infos;
      for (auto* n : outs) {
        FileInfo fi = zeroInfo();
        if (!n->isVirtual()) {
          fi = n->getFileInfo(system.getFileSystem());
          FileInfo li = system.getFileSystem().getLinkInfo(n->getName());
          if (li.isMissing() == false && (li.mode & 0170000) == 0120000) fi = li;    // a symbolic link: link info
        }
        if (!match) { fi.size += 1; fi.modTime.seconds += 1; fi.inode += 1; }
        infos.push_back(fi);
      }
      if (infos.empty()) infos.push_back(someInfo(0));
      BuildValue v = (k == 10) ? BuildValue::makeSuccessfulCommand(infos)
                   : (k == 17) ? BuildValue::makeSuccessfulCommandWithOutputSignature(infos, basic::CommandSignature(5))
                   : cmdValue(k, 1, 0, false);
      bool ok = c->isResultValid(system, v);
      out += " " + kv.first + ":" + std::to_string(k) + ":" + std::to_string(match) + ":" + (ok ? "1" : "0");
    }
  }
  // (c) provideValue / execute of the commands named probe-in-* (phony / mkdir instances WITHOUT declared inputs,
  //     so start() can be called without an engine): every sequence of up to 3 input value kinds
  out += " | inp";
  core::TaskInterface ti(nullptr, nullptr);
  for (auto& kv : del.commands) {
    if (kv.first.compare(0, 9, "probe-in-") != 0) continue;
    Command* c = kv.second;
    std::vector<std::vector<int>> seqs; seqs.push_back({});
    for (int a : INPUT_KINDS) { seqs.push_back({a}); for (int b : INPUT_KINDS) { seqs.push_back({a, b}); for (int d : INPUT_KINDS) seqs.push_back({a, b, d}); } }
    for (auto& s : seqs) {
      { std::lock_guard<std::mutex> l(del.mu); del.events.clear(); del.failures = 0; }
      c->start(system, ti);
      for (unsigned i = 0; i < s.size(); i++) {
        auto key = BuildKey::makeNode("in" + std::to_string(i)).toData();
        c->provideValue(system, ti, i, key, inputValue(s[i]));
      }
      int resultKind = -1;
      c->execute(system, ti, nullptr, [&](BuildValue&& r) { resultKind = (int)r.getKind(); });
      bool started = false; int missing = 0;
      for (auto& e : del.events) { if (e[0] == 'S') started = true; if (e[0] == 'M') missing = atoi(e.substr(e.rfind(':') + 1).c_str()); }
      std::string sq; for (int x : s) { if (!sq.empty()) sq += "."; sq += std::to_string(x); }
      out += " " + kv.first + ":" + (sq.empty() ? "-" : sq) + ":" + (started ? "1" : "0") + ":" + std::to_string(resultKind) + ":" +
             std::to_string(del.failures) + ":" + std::to_string(missing);
    }
  }
  // (d) providePriorValue / execute of the commands named probe-pr-*: the recorded prior value of each kind, the
  //     non-successful ones FIRST (hasPriorResult is only ever set, never cleared, by the unchanged code)
  out += " | prior";
  {
    const int PRIORS[] = {-1, 11, 12, 13, 14, 0, 10, 17};
    for (auto& kv : del.commands) {
      if (kv.first.compare(0, 9, "probe-pr-") != 0) continue;
      Command* c = kv.second;
      for (int pk : PRIORS) {
        { std::lock_guard<std::mutex> l(del.mu); del.events.clear(); del.failures = 0; }
        c->start(system, ti);
        if (pk >= 0) c->providePriorValue(system, ti, pk == 0 ? BuildValue::makeInvalid() : cmdValue(pk, c->getOutputs().size(), 0, false));
        int resultKind = -1;
        c->execute(system, ti, nullptr, [&](BuildValue&& r) { resultKind = (int)r.getKind(); });
        bool started = false;
        for (auto& e : del.events) if (e[0] == 'S') started = true;
        out += " " + kv.first + ":" + (pk < 0 ? std::string("none") : std::to_string(pk)) + ":" + (started ? "1" : "0") + ":" + std::to_string(resultKind);
      }
      // a successful prior value AND a FailedInput (then a good input): the skip decision comes first
      for (int variant = 0; variant < 2; variant++) {
        { std::lock_guard<std::mutex> l(del.mu); del.events.clear(); del.failures = 0; }
        c->start(system, ti);
        c->providePriorValue(system, ti, cmdValue(10, c->getOutputs().size(), 0, false));
        c->provideValue(system, ti, 0, BuildKey::makeNode("in0").toData(), inputValue(9));
        if (variant) c->provideValue(system, ti, 1, BuildKey::makeNode("in1").toData(), inputValue(2));
        int resultKind = -1;
        c->execute(system, ti, nullptr, [&](BuildValue&& r) { resultKind = (int)r.getKind(); });
        bool started = false;
        for (auto& e : del.events) if (e[0] == 'S') started = true;
        out += " " + kv.first + ":" + (variant ? "10+9.2" : "10+9") + ":" + (started ? "1" : "0") + ":" + std::to_string(resultKind);
      }
    }
  }
  return out;
}

// ---- one frontend across several builds (C05) ------------------------------------------------------------

/// Local file system whose remove() only records its argument (C14: the exact strings handed to FileSystem::remove).
std::mutex g_recMu;
std::vector<std::string> g_recorded;
class RecordingFileSystem : public FileSystem {
  std::unique_ptr<FileSystem> base;
public:
  RecordingFileSystem() : base(createLocalFileSystem()) {}
  bool createDirectory(const std::string& path) override { return base->createDirectory(path); }
  std::unique_ptr<llvm::MemoryBuffer> getFileContents(const std::string& path) override { return base->getFileContents(path); }
  bool remove(const std::string& path) override { std::lock_guard<std::mutex> l(g_recMu); g_recorded.push_back(path); return true; }
  FileChecksum getFileChecksum(const std::string& path) override { return base->getFileChecksum(path); }
  FileInfo getFileInfo(const std::string& path) override { return base->getFileInfo(path); }
  FileInfo getLinkInfo(const std::string& path) override { return base->getLinkInfo(path); }
  bool createSymlink(const std::string& src, const std::string& target) override { return base->createSymlink(src, target); }
};

struct Session {
  llvm::SourceMgr sm;
  BuildSystemInvocation inv;
  std::unique_ptr<DrvDelegate> del;
  std::unique_ptr<BuildSystemFrontend> fe;
};
std::unique_ptr<Session> g_session;

std::string doOpen(const SV& t) {
  g_session.reset(new Session());
  Session& s = *g_session;
  s.inv.chdirPath = unhex(t[1]);
  s.inv.buildFilePath = unhex(t[2]);
  s.inv.dbPath = unhex(t[3]);
  int lanes = atoi(t[4].c_str());
  s.inv.useSerialBuild = (lanes == 0);
  s.inv.schedulerLanes = lanes;
  s.del.reset(new DrvDelegate(s.sm));
  s.del->traceStatus = true;
  s.del->inBuild = false;
  if (t[0] == "openrec") s.fe.reset(new BuildSystemFrontend(*s.del, s.inv, std::unique_ptr<FileSystem>(new RecordingFileSystem())));
  else s.fe.reset(new BuildSystemFrontend(*s.del, s.inv, createLocalFileSystem()));
  freopen("/dev/null", "w", stderr);      // diagnostics of many builds must not fill the pipe
  return "opened";
}

std::string doFBuild(const SV& t) {
  if (!g_session) return "ERR no session";
  Session& s = *g_session;
  DrvDelegate& d = *s.del;
  int lateBefore;
  {
    std::lock_guard<std::mutex> l(d.mu);
    lateBefore = d.late; d.late = 0;
    d.events.clear(); d.cbCount = 0; d.failures = 0; d.errors = 0;
    d.cancelAt = (t[1] == "-") ? 0 : atoi(t[1].c_str());
    d.delayUs = atoi(t[2].c_str());
    d.cancelRequested = false;
    d.inBuild = true;
  }
  std::thread th;
  std::atomic<bool> done{false};
  if (t[3] != "-") {
    long us = atol(t[3].c_str());
    th = std::thread([&d, &done, us]() {
      std::this_thread::sleep_for(std::chrono::microseconds(us));
      if (!done) { d.cancelRequested = true; { std::lock_guard<std::mutex> l(d.mu); d.events.push_back("X"); } d.cancel(); }
    });
  }
  bool ok = s.fe->build(unhex(t[4]));
  done = true;
  unsigned nf = d.getNumFailedCommands(), ne = d.getNumErrors();
  std::vector<std::string> evs; int ncb;
  {
    std::lock_guard<std::mutex> l(d.mu);
    d.inBuild = false; evs = d.events; ncb = d.cbCount;
  }
  if (th.joinable()) th.join();
  return std::string("ok=") + (ok ? "1" : "0") + " failures=" + std::to_string(nf) + " errors=" + std::to_string(ne) +
         " cancelled=" + (d.cancelRequested ? "1" : "0") + " ncb=" + std::to_string(ncb) + " late=" + std::to_string(lateBefore) +
         " events=" + joinEvents(evs);
}

std::string doClose(const SV&) {
  if (!g_session) return "ERR no session";
  int late = g_session->del->late;
  g_session->fe.reset();
  late += g_session->del->late;
  g_session.reset();
  return "late=" + std::to_string(late);
}

std::string handle(const SV& t) {
  if ((t[0] == "open" || t[0] == "openrec") && t.size() == 5) return doOpen(t);
  if (t[0] == "removed") {
    std::lock_guard<std::mutex> l(g_recMu);
    std::string r;
    for (auto& p : g_recorded) { if (!r.empty()) r += ","; r += p.empty() ? std::string("-") : hex(p); }
    g_recorded.clear();
    return r.empty() ? "." : r;
  }
  if (t[0] == "fbuild" && t.size() == 5) return doFBuild(t);
  if (t[0] == "close") return doClose(t);
  if (t[0] == "fcancel") { if (!g_session) return "ERR no session"; g_session->del->cancel(); return "cancelled"; }
  if (t[0] == "build" && t.size() == 8) return doBuild(t);
  if (t[0] == "probe" && t.size() == 3) return doProbe(t);
  return "ERR unknown";
}

}

int main() {
  std::string line;
  while (std::getline(std::cin, line)) {
    if (line.empty()) { puts(""); fflush(stdout); continue; }
    std::string r = handle(split(line, ' '));
    fputs(r.c_str(), stdout); fputc('\n', stdout); fflush(stdout);
  }
  return 0;
}
