// Driver for the Ninja lexer (llbuild::ninja::Lexer) and shell quoting (llbuild::basic::shellEscaped).
// Line protocol (see common.h): one request per line, one answer line.
//   lex_all <mode 0..3> <hexdata>        tokens until EndOfFile, constant mode
//   lex_stream <modes digits|.> <hexdata> one lex() per digit, setMode() before each
//   shell_escaped <hex>                  -> hex
//   sh_real <hex>                        -> words /bin/sh obtains from `set -- <shellEscaped(arg)>` (hexlist) | ERR ...
//   sh_raw <hex>                         -> words /bin/sh obtains from `set -- <arg>` (no escaping; to test the sh model)
//   probe_keywords | probe_whitelist | probe_identchars
// Modes: 0 = None, 1 = PathString, 2 = VariableString, 3 = IdentifierSpecific.
// The lexer is always given an exact-size malloc'ed buffer without a terminator, so that a read past the end
// is a heap-buffer-overflow under ASan.
#include "common.h"
#include "llbuild/Ninja/Lexer.h"
#include "llbuild/Basic/ShellUtility.h"
#include <cstdlib>
#include <unistd.h>
#include <fcntl.h>
#include <sys/wait.h>
using namespace llbuild;

static ninja::Lexer::LexingMode modeOf(char c) {
  switch (c) {
  case '1': return ninja::Lexer::LexingMode::PathString;
  case '2': return ninja::Lexer::LexingMode::VariableString;
  case '3': return ninja::Lexer::LexingMode::IdentifierSpecific;
  default: return ninja::Lexer::LexingMode::None;
  }
}

struct Buf {
  char* p; size_t n;
  explicit Buf(const std::string& s) : n(s.size()) {
    p = (char*)malloc(n ? n : 1);            // exact size; for the empty input a 1-byte block of which 0 bytes are the buffer
    if (n) memcpy(p, s.data(), n);
    else p[0] = 'r';                         // a byte that would lex as an identifier if it were read
  }
  ~Buf() { free(p); }
  StringRef ref() const { return StringRef(p, n); }
};

static std::string showToken(const ninja::Token& t, const char* base) {
  return std::string(t.getKindName()) + " " + std::to_string((long)(t.start - base)) + " " + std::to_string(t.length) + " " +
         std::to_string(t.line) + " " + std::to_string(t.column);
}

static std::string lexAll(char mode, const std::string& data) {
  Buf b(data);
  ninja::Lexer lexer(b.ref());
  lexer.setMode(modeOf(mode));
  std::string r; ninja::Token tok;
  // every non-EOF token must consume a byte, so n + 1 calls suffice; more means the lexer does not make progress
  for (size_t i = 0; i <= b.n + 1; i++) {
    if (i == b.n + 1) return r + "|HANG";
    lexer.lex(tok);
    if (!r.empty()) r += "|";
    r += showToken(tok, b.p);
    if (tok.tokenKind == ninja::Token::Kind::EndOfFile) break;
  }
  return r;
}

static std::string lexStream(const std::string& modes, const std::string& data) {
  Buf b(data);
  ninja::Lexer lexer(b.ref());
  std::string r; ninja::Token tok;
  if (modes == ".") return ".";
  for (char m : modes) {
    lexer.setMode(modeOf(m));
    lexer.lex(tok);
    if (!r.empty()) r += "|";
    r += showToken(tok, b.p);
  }
  return r;
}

// first token of `w` in the given mode: "<kind code> <length>"
static void firstToken(char mode, const std::string& w, int& kind, unsigned& len) {
  Buf b(w);
  ninja::Lexer lexer(b.ref());
  lexer.setMode(modeOf(mode));
  ninja::Token tok; lexer.lex(tok);
  kind = (int)tok.tokenKind; len = tok.length;
}

// Runs /bin/sh -c <script> and returns its stdout; ok = exited with 0.
static std::string runSh(const std::string& script, bool& ok) {
  int fds[2]; ok = false;
  if (pipe(fds) != 0) return "";
  pid_t pid = fork();
  if (pid < 0) return "";
  if (pid == 0) {
    dup2(fds[1], 1); close(fds[0]); close(fds[1]);
    int dn = open("/dev/null", 1); if (dn >= 0) dup2(dn, 2);
    execl("/bin/sh", "sh", "-c", script.c_str(), (char*)0);
    _exit(127);
  }
  close(fds[1]);
  std::string out; char buf[4096]; ssize_t k;
  while ((k = read(fds[0], buf, sizeof buf)) > 0) out.append(buf, (size_t)k);
  close(fds[0]);
  int st = 0; waitpid(pid, &st, 0);
  ok = WIFEXITED(st) && WEXITSTATUS(st) == 0;
  return out;
}

// The words the real shell obtains from the text `text` in argument position.  The text is followed by a newline so
// that a comment inside it cannot swallow the reporting commands; each word is reported as NUL-terminated bytes
// after the word count.
static std::string shWords(const std::string& text) {
  if (text.find('\0') != std::string::npos) return "ERR nul";
  std::string script = "set -- " + text + "\nprintf '%s\\n' \"$#\"\nfor a do printf '%s\\0' \"$a\"; done\n";
  bool ok; std::string out = runSh(script, ok);
  if (!ok) return "ERR sh-failed";
  size_t nl = out.find('\n');
  if (nl == std::string::npos) return "ERR sh-output";
  size_t count = strtoul(out.substr(0, nl).c_str(), 0, 10);
  SV words; size_t pos = nl + 1;
  for (size_t i = 0; i < count; i++) {
    size_t z = out.find('\0', pos);
    if (z == std::string::npos) return "ERR sh-output";
    words.push_back(out.substr(pos, z - pos)); pos = z + 1;
  }
  if (pos != out.size()) return "ERR sh-output";
  return enlist(words);
}

static const char* KEYWORDS[] = {"rule", "pool", "build", "default", "include", "subninja"};

static std::string handle(const SV& t) {
  const std::string& c = t[0];
  if (c == "lex_all" && t.size() == 3 && t[1].size() == 1) return lexAll(t[1][0], unhex(t[2]));
  if (c == "lex_stream" && t.size() == 3) return lexStream(t[1], unhex(t[2]));
  if (c == "shell_escaped" && t.size() == 2) return hex(basic::shellEscaped(unhex(t[1])));
  if (c == "sh_real" && t.size() == 2) return shWords(basic::shellEscaped(unhex(t[1])));
  if (c == "sh_raw" && t.size() == 2) return shWords(unhex(t[1]));
  // probe_keywords: for each keyword: itself, every single-byte perturbation, every one-byte extension at either
  // end, both one-byte truncations; modes None (0) and IdentifierSpecific (3) for all of them, PathString (1) and
  // VariableString (2) for the exact keywords.  Entries "mode:hexinput:kind:length" separated by spaces.
  if (c == "probe_keywords") {
    std::string r; std::vector<std::pair<char, std::string>> probes;
    for (const char* kw : KEYWORDS) {
      std::string w(kw); std::vector<std::string> ws;
      ws.push_back(w);
      for (size_t i = 0; i < w.size(); i++)
        for (int v = 0; v < 256; v++) if ((char)v != w[i]) { std::string x = w; x[i] = (char)v; ws.push_back(x); }
      for (int v = 0; v < 256; v++) { ws.push_back(w + std::string(1, (char)v)); ws.push_back(std::string(1, (char)v) + w); }
      ws.push_back(w.substr(0, w.size() - 1)); ws.push_back(w.substr(1));
      for (auto& x : ws) { probes.push_back({'0', x}); probes.push_back({'3', x}); }
      probes.push_back({'1', w}); probes.push_back({'2', w});
    }
    for (auto& p : probes) {
      int kind; unsigned len; firstToken(p.first, p.second, kind, len);
      if (!r.empty()) r += " ";
      r += std::string(1, p.first) + ":" + hex(p.second) + ":" + std::to_string(kind) + ":" + std::to_string(len);
    }
    return r;
  }
  // probe_whitelist: the bytes b (decimal) for which shellEscaped of the one-byte string is that string
  if (c == "probe_whitelist") {
    std::string r = "whitelist";
    for (int v = 0; v < 256; v++) { std::string s(1, (char)v); if (basic::shellEscaped(s) == s) r += " " + std::to_string(v); }
    return r;
  }
  // probe_identchars: the bytes accepted by isIdentifierChar / isSimpleIdentifierChar (called as the lexer calls them:
  // with the int value 0..255 of the byte, converted to char by the call)
  if (c == "probe_identchars") {
    std::string r = "ident";
    for (int v = 0; v < 256; v++) if (ninja::Lexer::isIdentifierChar(v)) r += " " + std::to_string(v);
    r += " | simple";
    for (int v = 0; v < 256; v++) if (ninja::Lexer::isSimpleIdentifierChar(v)) r += " " + std::to_string(v);
    return r;
  }
  return "ERR unknown";
}

int main() {
  std::string line;
  while (std::getline(std::cin, line)) {
    if (line.empty()) { puts(""); fflush(stdout); continue; }
    std::string r = handle(split(line, ' '));
    fputs(r.c_str(), stdout); fputc('\n', stdout); fflush(stdout);
  }
  return 0;
}
