// Signature driver (property C09).
//   sig <file.llbuild> <command-name-hex> <first-output-hex | NONE>
//        loads the description with the real loader and the real built-in tools (BuildSystem::loadDescription) and
//        prints Command::getSignature().value of the named command (decimal), or "ERR ...".
//        The command object is reached through its first output node (BuildSystem::lookupNode + getProducers);
//        a command without outputs is reached by building the key of the command with a delegate whose
//        shouldCommandStart() answers false (nothing executes; the delegate sees the Command*).
//   nodesig <file.llbuild> <node-name-hex>
//        prints BuildNode::getSignature().value and the names of the producers, or "ERR ...".
//   fold <name-hex> <token>...     start from size_t(llvm::hash_value(StringRef(name)))  (CommandSignature(StringRef))
//   fold0 <token>...               start from 0                                           (CommandSignature())
//        folds llvm::hash_combine over the tokens exactly as the CommandSignature::combine overloads do:
//        S:<hex> -> hash_combine(value, StringRef), B:0|1 -> hash_combine(value, bool), U:<dec> -> hash_combine(value, uint64_t)
#include "common.h"
#include "llbuild/Basic/ExecutionQueue.h"
#include "llbuild/Basic/FileSystem.h"
#include "llbuild/Basic/Hashing.h"
#include "llbuild/BuildSystem/BuildDescription.h"
#include "llbuild/BuildSystem/BuildFile.h"
#include "llbuild/BuildSystem/BuildKey.h"
#include "llbuild/BuildSystem/BuildNode.h"
#include "llbuild/BuildSystem/BuildSystem.h"
#include "llbuild/BuildSystem/BuildValue.h"
#include "llbuild/BuildSystem/Command.h"
#include "llbuild/BuildSystem/Tool.h"
#include "llvm/ADT/Hashing.h"
#include "llvm/ADT/StringRef.h"
#include "llvm/ADT/Twine.h"
#include <map>
#include <memory>
#include <mutex>

using namespace llbuild;
using namespace llbuild::basic;
using namespace llbuild::buildsystem;
using llvm::StringRef;

namespace {

class QueueDelegate : public ExecutionQueueDelegate {
  void queueJobStarted(JobDescriptor*) override {}
  void queueJobFinished(JobDescriptor*) override {}
  void processStarted(ProcessContext*, ProcessHandle, llbuild_pid_t) override {}
  void processHadError(ProcessContext*, ProcessHandle, const llvm::Twine&) override {}
  void processHadOutput(ProcessContext*, ProcessHandle, StringRef) override {}
  void processFinished(ProcessContext*, ProcessHandle, const ProcessResult&) override {}
};

class Delegate : public BuildSystemDelegate {
public:
  QueueDelegate queueDelegate;
  std::mutex mutex;
  std::string errors;
  std::map<std::string, Command*> seen;   // commands the engine told us about, by name
  unsigned started = 0;

  Delegate() : BuildSystemDelegate("basic", 0) {}

  void note(Command* c) { std::lock_guard<std::mutex> g(mutex); seen[c->getName().str()] = c; }
  void setFileContentsBeingParsed(StringRef) override {}
  void error(StringRef filename, const Token&, const llvm::Twine& message) override {
    std::lock_guard<std::mutex> g(mutex);
    if (!errors.empty()) errors += "; ";
    errors += message.str();
  }
  std::unique_ptr<Tool> lookupTool(StringRef) override { return nullptr; }   // built-in tools only
  std::unique_ptr<ExecutionQueue> createExecutionQueue() override {
    return std::unique_ptr<ExecutionQueue>(createLaneBasedExecutionQueue(
        queueDelegate, 1, SchedulerAlgorithm::NamePriority, getDefaultQualityOfService(), nullptr));
  }
  void hadCommandFailure() override {}
  void commandStatusChanged(Command* c, CommandStatusKind) override { note(c); }
  void commandPreparing(Command* c) override { note(c); }
  bool shouldCommandStart(Command* c) override { note(c); return false; }   // never execute anything
  void commandStarted(Command*) override { std::lock_guard<std::mutex> g(mutex); ++started; }
  void commandHadError(Command*, StringRef) override {}
  void commandHadNote(Command*, StringRef) override {}
  void commandHadWarning(Command*, StringRef) override {}
  void commandFinished(Command*, ProcessStatus) override {}
  void commandFoundDiscoveredDependency(Command*, StringRef, DiscoveredDependencyKind) override {}
  void commandCannotBuildOutputDueToMissingInputs(Command*, Node*, llvm::ArrayRef<BuildKey>) override {}
  Command* chooseCommandFromMultipleProducers(Node*, std::vector<Command*>) override { return nullptr; }
  void cannotBuildNodeDueToMultipleProducers(Node*, std::vector<Command*>) override {}
  void determinedRuleNeedsToRun(core::Rule*, core::Rule::RunReason, core::Rule*) override {}
};

std::string u64s(uint64_t v) { return std::to_string((unsigned long long)v); }

std::string cmdSig(const std::string& file, const std::string& name, const std::string& out0, bool hasOut) {
  Delegate delegate;
  BuildSystem system(delegate, createLocalFileSystem());
  if (!system.loadDescription(file)) return "ERR load: " + delegate.errors;
  if (!delegate.errors.empty()) return "ERR load-diagnostics: " + delegate.errors;
  if (hasOut) {
    BuildNode* node = system.lookupNode(out0);
    if (!node) return "ERR no-node";
    Command* found = nullptr; unsigned n = 0;
    for (Command* c : node->getProducers()) if (c->getName() == name) { found = c; ++n; }
    if (!found) return "ERR not-a-producer";
    return u64s(found->getSignature().value) + (n > 1 ? " producers-listed:" + std::to_string(n) : "");
  }
  // no outputs: no node leads to the command; let the engine look the command up by key
  system.build(BuildKey::makeCommand(name));
  auto it = delegate.seen.find(name);
  if (it == delegate.seen.end()) return "ERR command-not-seen: " + delegate.errors;
  if (delegate.started) return "ERR a command started";
  return u64s(it->second->getSignature().value);
}

std::string nodeSig(const std::string& file, const std::string& name) {
  Delegate delegate;
  BuildSystem system(delegate, createLocalFileSystem());
  if (!system.loadDescription(file)) return "ERR load: " + delegate.errors;
  if (!delegate.errors.empty()) return "ERR load-diagnostics: " + delegate.errors;
  BuildNode* node = system.lookupNode(name);
  if (!node) return "ERR no-node";
  SV prods;
  for (Command* c : node->getProducers()) prods.push_back(c->getName().str());
  int type = node->isVirtual() ? 3 : node->isDirectoryStructure() ? 2 : node->isDirectory() ? 1 : 0;
  return u64s(node->getSignature().value) + " " + std::to_string(type) + " " + enlist(prods);
}

std::string fold(uint64_t value, const SV& f, size_t from) {
  for (size_t i = from; i < f.size(); i++) {
    const std::string& t = f[i];
    if (t.size() < 3 || t[1] != ':') return "ERR token " + t;
    std::string body = t.substr(2);
    if (t[0] == 'S') { std::string s = unhex(body); value = llvm::hash_combine(value, StringRef(s)); }
    else if (t[0] == 'B') { bool b = (body == "1"); value = llvm::hash_combine(value, b); }
    else if (t[0] == 'U') { uint64_t n = strtoull(body.c_str(), nullptr, 10); value = llvm::hash_combine(value, n); }
    else return "ERR token " + t;
  }
  return u64s(value);
}

} // namespace

int main() {
  std::string line;
  while (std::getline(std::cin, line)) {
    SV f = split(line, ' ');
    std::string ans;
    if (f[0] == "sig" && f.size() == 4) ans = cmdSig(f[1], unhex(f[2]), unhex(f[3]), f[3] != "NONE");
    else if (f[0] == "nodesig" && f.size() == 3) ans = nodeSig(f[1], unhex(f[2]));
    else if (f[0] == "fold" && f.size() >= 2) {
      std::string name = unhex(f[1]);
      ans = fold(uint64_t(size_t(llvm::hash_value(StringRef(name)))), f, 2);
    }
    else if (f[0] == "fold0") ans = fold(0, f, 1);
    else ans = "ERR unknown";
    printf("%s\n", ans.c_str()); fflush(stdout);
  }
  return 0;
}
