// Leaf-function driver: evaluates small pure functions of /repo on inputs given one per line.
#include "common.h"
#include "llbuild/BuildSystem/BuildSystem.h"
#include "llbuild/Basic/ShellUtility.h"
#include "llvm/ADT/SmallString.h"
#include "llvm/Support/raw_ostream.h"
using namespace llbuild;

static std::string handle(const SV& t) {
  const std::string& c = t[0];
  if (c == "pip" && t.size() == 3)
    return buildsystem::pathIsPrefixedByPath(unhex(t[1]), unhex(t[2])) ? "1" : "0";
  if (c == "shell_escaped" && t.size() == 2) {
    return hex(basic::shellEscaped(unhex(t[1])));
  }
  return "ERR unknown";
}
int main() {
  std::string line;
  while (std::getline(std::cin, line)) {
    if (line.empty()) { puts(""); continue; }
    std::string r = handle(split(line, ' '));
    fputs(r.c_str(), stdout); fputc('\n', stdout);
  }
  return 0;
}
