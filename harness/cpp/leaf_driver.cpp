// Leaf-function driver: evaluates small pure functions of /repo on inputs given one per line.
#include "common.h"
#include <memory>
#include "llbuild/BuildSystem/BuildSystem.h"
#include "llbuild/Basic/ShellUtility.h"
#include "llvm/ADT/SmallString.h"
#include "llvm/Support/raw_ostream.h"
#include "llbuild/BuildSystem/BuildValue.h"
#include "llbuild/BuildSystem/BuildKey.h"
#include "llbuild/Basic/FileInfo.h"
#include "llbuild/Basic/StringList.h"
#include "llbuild/Basic/FileSystem.h"
using namespace llbuild;
using namespace llbuild::buildsystem;
using llbuild::basic::FileInfo;

// ---- codec helpers (C15) ----
static std::string u64s(uint64_t v) { return std::to_string((unsigned long long)v); }
static FileInfo parseFI(const std::string& s) {
  SV f = split(s, ':'); FileInfo fi; memset(&fi, 0, sizeof(fi));
  fi.device = strtoull(f[0].c_str(), 0, 10); fi.inode = strtoull(f[1].c_str(), 0, 10);
  fi.mode = strtoull(f[2].c_str(), 0, 10); fi.size = strtoull(f[3].c_str(), 0, 10);
  fi.modTime.seconds = strtoull(f[4].c_str(), 0, 10); fi.modTime.nanoseconds = strtoull(f[5].c_str(), 0, 10);
  std::string ck = unhex(f[6]); for (size_t i = 0; i < 32 && i < ck.size(); i++) fi.checksum.bytes[i] = (uint8_t)ck[i];
  return fi;
}
static std::string showFI(const FileInfo& fi) {
  return u64s(fi.device) + ":" + u64s(fi.inode) + ":" + u64s(fi.mode) + ":" + u64s(fi.size) + ":" +
         u64s(fi.modTime.seconds) + ":" + u64s(fi.modTime.nanoseconds) + ":" + hex(fi.checksum.bytes, 32);
}
static std::vector<FileInfo> parseFIs(const std::string& s) {
  std::vector<FileInfo> r; if (s == ".") return r; for (auto& x : split(s, ';')) r.push_back(parseFI(x)); return r;
}
static BuildValue makeValue(int kind, uint64_t sig, const std::vector<FileInfo>& infos, const SV& strs) {
  basic::CommandSignature cs(sig);
  switch (kind) {
  case 0: return BuildValue::makeInvalid();
  case 1: return BuildValue::makeVirtualInput();
  case 2: return BuildValue::makeExistingInput(infos[0]);
  case 3: return BuildValue::makeMissingInput();
  case 4: return BuildValue::makeDirectoryContents(infos[0], strs);
  case 5: return BuildValue::makeDirectoryTreeSignature(cs);
  case 6: return BuildValue::makeDirectoryTreeStructureSignature(cs);
  case 7: return BuildValue::makeStaleFileRemoval(strs);
  case 8: return BuildValue::makeMissingOutput();
  case 9: return BuildValue::makeFailedInput();
  case 10: return BuildValue::makeSuccessfulCommand(infos);
  case 11: return BuildValue::makeFailedCommand();
  case 12: return BuildValue::makePropagatedFailureCommand();
  case 13: return BuildValue::makeCancelledCommand();
  case 14: return BuildValue::makeSkippedCommand();
  case 15: return BuildValue::makeTarget();
  case 16: return BuildValue::makeFilteredDirectoryContents(strs);
  case 17: return BuildValue::makeSuccessfulCommandWithOutputSignature(infos, cs);
  }
  return BuildValue::makeInvalid();
}
static std::string vbytes(const BuildValue& v) { auto d = v.toData(); return hex(d.data(), d.size()); }
static std::string showValue(const BuildValue& v) {
  int k = (int)v.getKind(); std::string r = std::to_string(k);
  bool hs = (k == 5 || k == 6 || k == 17), hi = (k == 2 || k == 10 || k == 17 || k == 4), hl = (k == 4 || k == 16 || k == 7);
  uint64_t sig = 0;
  if (k == 5) sig = v.getDirectoryTreeSignature().value; else if (k == 6) sig = v.getDirectoryTreeStructureSignature().value;
  else if (k == 17) sig = v.getOutputSignature().value;
  r += " " + u64s(sig) + " ";
  if (hi) { for (unsigned i = 0; i < v.getNumOutputs(); i++) { if (i) r += ";"; r += showFI(v.getNthOutputInfo(i)); } if (v.getNumOutputs() == 0) r += "."; }
  else r += ".";
  r += " ";
  if (hl) { SV l; auto vals = (k == 7) ? v.getStaleFileList() : v.getDirectoryContents(); for (auto x : vals) l.push_back(x.str()); r += enlist(l); }
  else r += ".";
  return r;
}
static BuildKey makeKey(int kind, const std::string& name, const std::string& data, const SV& filters) {
  basic::StringList fl{ArrayRef<std::string>(filters)};
  switch (kind) {
  case 0: return BuildKey::makeCommand(name);
  case 1: return BuildKey::makeCustomTask(name, data);
  case 2: return BuildKey::makeDirectoryContents(name);
  case 3: return BuildKey::makeFilteredDirectoryContents(name, fl);
  case 4: return BuildKey::makeDirectoryTreeSignature(name, fl);
  case 5: return BuildKey::makeDirectoryTreeStructureSignature(name, fl);
  case 6: return BuildKey::makeNode(name);
  case 7: return BuildKey::makeStat(name);
  default: return BuildKey::makeTarget(name);
  }
}
static std::string showKey(const BuildKey& k) {
  int kind = (int)k.getKind(); std::string r = std::to_string(kind) + " ";
  auto fl = [&]() { SV l; basic::StringList sl = k.getContentExclusionPatternsAsStringList(); for (auto x : sl.getValues()) l.push_back(x.str()); return enlist(l); };
  switch (k.getKind()) {
  case BuildKey::Kind::Command: return r + hex(k.getCommandName().str()) + " - .";
  case BuildKey::Kind::CustomTask: return r + hex(k.getCustomTaskName().str()) + " " + hex(k.getCustomTaskData().str()) + " .";
  case BuildKey::Kind::DirectoryContents: return r + hex(k.getDirectoryPath().str()) + " - .";
  case BuildKey::Kind::FilteredDirectoryContents: return r + hex(k.getFilteredDirectoryPath().str()) + " - " + fl();
  case BuildKey::Kind::DirectoryTreeSignature: return r + hex(k.getDirectoryTreeSignaturePath().str()) + " - " + fl();
  case BuildKey::Kind::DirectoryTreeStructureSignature: return r + hex(k.getFilteredDirectoryPath().str()) + " - " + fl();
  case BuildKey::Kind::Node: return r + hex(k.getNodeName().str()) + " - .";
  case BuildKey::Kind::Stat: return r + hex(k.getStatName().str()) + " - .";
  case BuildKey::Kind::Target: return r + hex(k.getTargetName().str()) + " - .";
  default: return r + "- - .";
  }
}

// ---- re-used BuildValue objects (C15: value_assign) ----
struct VSpec { int kind; uint64_t sig; std::vector<FileInfo> infos; SV strs; };
static BuildValue mkv(const VSpec& s) { return makeValue(s.kind, s.sig, s.infos, s.strs); }
static BuildValue mkdec(const VSpec& s) { auto d = mkv(s).toData(); return BuildValue::fromData(d); }
// one observation of an object: "<want> <label> <toData hex> | <accessors> | <accessors of fromData(toData)>" ("=" = same)
static void emitv(std::string& out, const char* want, const char* label, const BuildValue& v) {
  auto d = v.toData(); BuildValue rd = BuildValue::fromData(d);
  if (!out.empty()) out += " ## ";
  std::string sv = showValue(v), sr = showValue(rd);
  // the single-output accessor and the non-const accessor must agree with what showValue read
  int k = (int)v.getKind();
  if (k == 2 || k == 4 || k == 10 || k == 17) {
    if (v.getNumOutputs() == 1 && !(showFI(v.getOutputInfo()) == showFI(v.getNthOutputInfo(0)))) sv += " !getOutputInfo";
    BuildValue& m = const_cast<BuildValue&>(v);
    for (unsigned i = 0; i < v.getNumOutputs(); i++) if (&m.getNthOutputInfo(i) != &v.getNthOutputInfo(i)) sv += " !nonconst-getNthOutputInfo";
  }
  out += std::string(want) + " " + label + " " + hex(d.data(), d.size()) + " | " + sv + " | " + (sr == sv ? std::string("=") : sr);
}
// an object that has gone through the history h[0..upto): constructed from h[0], then assigned every later value,
// alternately a freshly made one and one decoded from bytes
static std::unique_ptr<BuildValue> historyObject(const std::vector<VSpec>& h, size_t upto) {
  std::unique_ptr<BuildValue> t(new BuildValue(mkv(h[0])));
  for (size_t j = 1; j < upto; j++) { if (j & 1) *t = mkv(h[j]); else *t = mkdec(h[j]); }
  return t;
}
static std::string valueAssign(const std::vector<VSpec>& h, bool all) {
  size_t n = h.size(); const VSpec& N = h[n - 1]; const VSpec& O = h[n - 2];
  std::string out;
  { BuildValue f = mkv(N); emitv(out, "N", "fresh", f); }
  { BuildValue f = mkv(O); emitv(out, "O", "fresh", f); }
  { auto t = historyObject(h, n - 1); emitv(out, "O", "hist", *t); }
  // move-assignment of a fresh value / of a copy / of a decoded value into the object holding the old value
  { auto t = historyObject(h, n - 1); *t = mkv(N); emitv(out, "N", "moveassign", *t); }
  { auto t = historyObject(h, n - 1); BuildValue src = mkv(N); *t = BuildValue(src);
    emitv(out, "N", "copyassign", *t); emitv(out, "N", "copyassign-source", src); }
  { auto t = historyObject(h, n - 1); *t = mkdec(N); emitv(out, "N", "assign-decoded", *t); }
  // the object holding the old value was itself decoded from bytes
  { BuildValue d = mkdec(O); d = mkv(N); emitv(out, "N", "decoded-then-assigned", d); }
  { BuildValue d = mkdec(O); d = mkdec(N); emitv(out, "N", "decoded-then-assigned-decoded", d);
    BuildValue e = mkv(O); e = std::move(d); emitv(out, "N", "decoded-moved-on", e); }
  // a value whose output infos are written in place through the non-const accessor (over an object with a history)
  if ((N.kind == 2 || N.kind == 4 || N.kind == 10 || N.kind == 17) && !N.infos.empty()) {
    VSpec scr = N; for (auto& fi : scr.infos) memset(&fi, 0x5A, sizeof(fi));
    auto t = historyObject(h, n - 1); *t = mkv(scr);
    for (unsigned i = 0; i < t->getNumOutputs(); i++) t->getNthOutputInfo(i) = N.infos[i];
    emitv(out, "N", "infos-written-in-place", *t);
  }
  if (!all) return out;     // value_assign_basic: the steps above only (asked again when the full set crashed)
  // moved-from objects that are given a new value (moved from by construction / by assignment)
  { auto t = historyObject(h, n - 1); BuildValue sink(std::move(*t)); *t = mkv(N);
    emitv(out, "N", "movedfrom-reused", *t); emitv(out, "O", "moveconstructed-sink", sink); }
  { auto t = historyObject(h, n - 1); BuildValue sink = mkv(N); sink = std::move(*t); *t = mkdec(N);
    emitv(out, "N", "movedfrom2-reused", *t); emitv(out, "O", "moveassigned-sink", sink); }
  // self move-assignment
  { auto t = historyObject(h, n - 1); *t = mkv(N); BuildValue& r = *t; *t = std::move(r); emitv(out, "N", "self-moveassign", *t); }
  // the three-move swap
  { auto t = historyObject(h, n - 1); BuildValue b = mkv(N); BuildValue tmp(std::move(*t)); *t = std::move(b); b = std::move(tmp);
    emitv(out, "N", "swap-a", *t); emitv(out, "O", "swap-b", b); }
  // constructing from an object that was assigned to
  { auto t = historyObject(h, n - 1); *t = mkv(N); BuildValue cp(*t); emitv(out, "N", "copy-of-assigned", cp);
    emitv(out, "N", "assigned-after-copy", *t); BuildValue mv(std::move(*t)); emitv(out, "N", "move-of-assigned", mv); }
  // and back again
  { auto t = historyObject(h, n - 1); *t = mkv(N); *t = mkv(O); emitv(out, "O", "assigned-back", *t); }
  return out;
}

// ---- every accessor of a decoded key, without trusting the sizes it computes (C15: key_acc) ----
// a StringRef returned by an accessor is printed only if it lies inside the key's own bytes; else "OOR:<size>"
static bool insideKey(const BuildKey& k, StringRef r) {
  const char* b = k.getKeyData().data(); size_t n = k.getKeyData().size();
  uintptr_t lo = (uintptr_t)b, hi = lo + n, p = (uintptr_t)r.data();
  return r.size() <= n && p >= lo && p <= hi && r.size() <= hi - p;
}
static std::string safeRef(const BuildKey& k, StringRef r) {
  if (!insideKey(k, r)) return "OOR:" + std::to_string((unsigned long long)r.size());
  return hex(std::string(r.data(), r.size()));
}
// "<kind> <name> <data|-> <filters|.> <raw filter bytes|->"
static std::string safeShowKey(const BuildKey& k) {
  std::string r = std::to_string((int)k.getKind()) + " ";
  auto filters = [&]() -> std::string {
    StringRef raw = k.getContentExclusionPatterns();
    if (!insideKey(k, raw)) return "OOR OOR:" + std::to_string((unsigned long long)raw.size());
    // the string list inside must itself fit: u64 size + that many bytes
    if (raw.size() < 8) return "SHORT " + hex(std::string(raw.data(), raw.size()));
    uint64_t sz; memcpy(&sz, raw.data(), 8);
    if (sz != raw.size() - 8) return "BADSIZE:" + std::to_string((unsigned long long)sz) + " " + hex(std::string(raw.data(), raw.size()));
    SV l; basic::StringList sl = k.getContentExclusionPatternsAsStringList(); for (auto x : sl.getValues()) l.push_back(x.str());
    return enlist(l) + " " + hex(std::string(raw.data(), raw.size()));
  };
  switch (k.getKind()) {
  case BuildKey::Kind::Command: return r + safeRef(k, k.getCommandName()) + " - . -";
  case BuildKey::Kind::CustomTask: return r + safeRef(k, k.getCustomTaskName()) + " " + safeRef(k, k.getCustomTaskData()) + " . -";
  case BuildKey::Kind::DirectoryContents: return r + safeRef(k, k.getDirectoryPath()) + " - . -";
  case BuildKey::Kind::FilteredDirectoryContents: return r + safeRef(k, k.getFilteredDirectoryPath()) + " - " + filters();
  case BuildKey::Kind::DirectoryTreeSignature: return r + safeRef(k, k.getDirectoryTreeSignaturePath()) + " - " + filters();
  case BuildKey::Kind::DirectoryTreeStructureSignature: return r + safeRef(k, k.getFilteredDirectoryPath()) + " - " + filters();
  case BuildKey::Kind::Node: return r + safeRef(k, k.getNodeName()) + " - . -";
  case BuildKey::Kind::Stat: return r + safeRef(k, k.getStatName()) + " - . -";
  case BuildKey::Kind::Target: return r + safeRef(k, k.getTargetName()) + " - . -";
  default: return r + "- - . -";
  }
}
// key made by its factory; the same key decoded from its bytes; a copy of that; a key assigned over another key
static std::string keyAcc(int kind, const std::string& name, const std::string& data, const SV& filters) {
  BuildKey k = makeKey(kind, name, data, filters);
  std::string bytes = k.toData().str();
  BuildKey d = BuildKey::fromData(core::KeyType(bytes));
  BuildKey cp(d);
  BuildKey as = BuildKey::makeCustomTask(std::string(200, 'x'), "old-data"); as = d;
  BuildKey mv = BuildKey::makeTarget("old"); mv = std::move(cp);
  // answer: "<bytes> | <factory-made> | <decoded> | <copy-assigned> | <move-assigned> | <their toData>"; "=" = same as the field before
  std::string r = hex(bytes), prev = safeShowKey(k);
  r += " | " + prev;
  for (const BuildKey* x : {&d, &as, &mv}) { std::string s = safeShowKey(*x); r += " | " + (s == prev ? std::string("=") : s); prev = s; }
  r += " |";
  for (const BuildKey* x : {&d, &as, &mv}) { std::string b = x->toData().str(); r += " " + (b == bytes ? std::string("=") : hex(b)); }
  return r;
}

static std::vector<FileInfo> g_slots;
static std::string handle(const SV& t) {
  const std::string& c = t[0];
  if (c == "pip" && t.size() == 3)
    return buildsystem::pathIsPrefixedByPath(unhex(t[1]), unhex(t[2])) ? "1" : "0";
  if (c == "shell_escaped" && t.size() == 2) {
    return hex(basic::shellEscaped(unhex(t[1])));
  }
  // value_enc <kind> <sig> <infos> <strs>: bytes of toData(); the same value reached through copy, move,
  // move-assignment over a multi-output value and decode(encode) must give identical bytes
  if (c == "value_enc" && t.size() == 5) {
    int kind = atoi(t[1].c_str()); uint64_t sig = strtoull(t[2].c_str(), 0, 10);
    auto infos = parseFIs(t[3]); SV strs = unlist(t[4]);
    BuildValue v = makeValue(kind, sig, infos, strs);
    std::string b0 = vbytes(v);
    BuildValue cp(v); std::string b1 = vbytes(cp);
    BuildValue mv(std::move(cp)); std::string b2 = vbytes(mv);
    FileInfo z[3]; memset(z, 0xAB, sizeof(z));
    BuildValue tgt = BuildValue::makeSuccessfulCommand(ArrayRef<FileInfo>(z, 3));
    tgt = std::move(mv); std::string b3 = vbytes(tgt);
    auto d = v.toData(); BuildValue rd = BuildValue::fromData(d); std::string b4 = vbytes(rd);
    if (b1 != b0 || b2 != b0 || b3 != b0 || b4 != b0)
      return "INCONSISTENT direct=" + b0 + " copy=" + b1 + " move=" + b2 + " moveassign=" + b3 + " redecoded=" + b4;
    return b0;
  }
  // value_many <kind 10|17> <n>: n distinct infos; encode, decode, compare every info; also a second value that
  // differs only in the last info must encode differently
  if (c == "value_many" && t.size() == 3) {
    int kind = atoi(t[1].c_str()); size_t n = strtoull(t[2].c_str(), 0, 10);
    std::vector<FileInfo> infos(n); memset(infos.data(), 0, n * sizeof(FileInfo));
    for (size_t i = 0; i < n; i++) { infos[i].inode = i + 1; infos[i].size = 7 * i; }
    BuildValue v = makeValue(kind, 5, infos, SV{});
    auto d = v.toData(); BuildValue rd = BuildValue::fromData(d);
    if ((int)rd.getKind() != kind) return "MISMATCH kind " + std::to_string((int)rd.getKind());
    if (rd.getNumOutputs() != n) return "MISMATCH count " + std::to_string(rd.getNumOutputs());
    for (size_t i = 0; i < n; i++) if (!(rd.getNthOutputInfo(i) == infos[i]) || rd.getNthOutputInfo(i).mode != infos[i].mode) return "MISMATCH info " + std::to_string(i);
    infos[n - 1].size ^= 1; BuildValue v2 = makeValue(kind, 5, infos, SV{});
    if (v2.toData() == d) return "MISMATCH collision: a value differing in the last output encodes identically";
    return "OK " + std::to_string(n) + " " + std::to_string(d.size());
  }
  // value_assign (<kind> <sig> <infos> <strs>)x n, n >= 2: an object that held the first n-1 values in turn receives the
  // last one by move-assignment / assignment of a copy / of a decoded value, after having been moved from, by self
  // assignment, by swapping; every resulting object is shown as bytes + accessors + accessors after decode
  if ((c == "value_assign" || c == "value_assign_basic") && t.size() >= 9 && (t.size() - 1) % 4 == 0) {
    std::vector<VSpec> h;
    for (size_t i = 1; i + 3 < t.size(); i += 4)
      h.push_back(VSpec{atoi(t[i].c_str()), strtoull(t[i + 1].c_str(), 0, 10), parseFIs(t[i + 2]), unlist(t[i + 3])});
    return valueAssign(h, c == "value_assign");
  }
  // key_acc <kind> <name> <data> <filters>: encoding + every accessor of the key as made, decoded, copy- and move-assigned
  if (c == "key_acc" && t.size() == 5)
    return keyAcc(atoi(t[1].c_str()), unhex(t[2]), unhex(t[3]), unlist(t[4]));
  if (c == "value_dec" && t.size() == 2) {
    std::string b = unhex(t[1]); core::ValueType d(b.begin(), b.end());
    BuildValue v = BuildValue::fromData(d);
    return showValue(v);
  }
  if (c == "key_enc" && t.size() == 5) {
    BuildKey k = makeKey(atoi(t[1].c_str()), unhex(t[2]), unhex(t[3]), unlist(t[4]));
    return hex(k.toData().str());
  }
  if (c == "key_dec" && t.size() == 2) {
    BuildKey k = BuildKey::fromData(core::KeyType(unhex(t[1])));
    return showKey(k);
  }
  // fs_obs <slot> <mode 0|1|2> <link 0|1> <hexpath>: observe through the real FileSystem wrappers, keep in a slot
  if (c == "fs_obs" && t.size() == 5) {
    static std::unique_ptr<basic::FileSystem> fss[3];
    if (!fss[0]) { fss[0] = basic::createLocalFileSystem(); fss[1] = basic::DeviceAgnosticFileSystem::from(basic::createLocalFileSystem());
                   fss[2] = basic::ChecksumOnlyFileSystem::from(basic::createLocalFileSystem()); }
    int slot = atoi(t[1].c_str()), mode = atoi(t[2].c_str()); bool link = t[3] == "1";
    FileInfo fi = link ? fss[mode]->getLinkInfo(unhex(t[4])) : fss[mode]->getFileInfo(unhex(t[4]));
    if ((int)g_slots.size() <= slot) g_slots.resize(slot + 1);
    g_slots[slot] = fi;
    return showFI(fi) + " " + (fi.isMissing() ? "1" : "0");
  }
  if (c == "fs_eq" && t.size() == 3) {
    const FileInfo& a = g_slots[atoi(t[1].c_str())]; const FileInfo& b = g_slots[atoi(t[2].c_str())];
    bool e = (a == b), ne = (a != b);
    return std::string(e ? "1" : "0") + (e == ne ? " INCONSISTENT-NEQ" : "");
  }
  // probe_codec: tag byte of an instance of every value kind (enum order), identifierForKind for every key kind,
  // kindForIdentifier for every char
  if (c == "probe_codec") {
    std::string r = "value_tags";
    FileInfo fi; memset(&fi, 0, sizeof(fi)); fi.inode = 1; std::vector<FileInfo> one{fi};
    for (int k = 0; k < 18; k++) { BuildValue v = makeValue(k, 1, one, SV{"x"}); auto d = v.toData(); r += " " + std::to_string((int)d[0]) + ":" + std::to_string((int)v.getKind()); }
    r += " | char_of_kind";
    for (int k = 0; k < 9; k++) r += " " + std::to_string((int)(unsigned char)BuildKey::identifierForKind((BuildKey::Kind)k));
    r += " | kind_of_char";
    for (int ch = 0; ch < 256; ch++) r += " " + std::to_string((int)BuildKey::kindForIdentifier((char)ch));
    return r;
  }
  return "ERR unknown";
}
int main() {
  std::string line;
  while (std::getline(std::cin, line)) {
    if (line.empty()) { puts(""); fflush(stdout); continue; }
    std::string r = handle(split(line, ' '));
    fputs(r.c_str(), stdout); fputc('\n', stdout); fflush(stdout);
  }
  return 0;
}
