// Leaf-function driver: evaluates small pure functions of /repo on inputs given one per line.
#include "common.h"
#include "llbuild/BuildSystem/BuildSystem.h"
#include "llbuild/Basic/ShellUtility.h"
#include "llvm/ADT/SmallString.h"
#include "llvm/Support/raw_ostream.h"
#include "llbuild/BuildSystem/BuildValue.h"
#include "llbuild/BuildSystem/BuildKey.h"
#include "llbuild/Basic/FileInfo.h"
#include "llbuild/Basic/StringList.h"
#include "llbuild/Basic/FileSystem.h"
using namespace llbuild;
using namespace llbuild::buildsystem;
using llbuild::basic::FileInfo;

// ---- codec helpers (C15) ----
static std::string u64s(uint64_t v) { return std::to_string((unsigned long long)v); }
static FileInfo parseFI(const std::string& s) {
  SV f = split(s, ':'); FileInfo fi; memset(&fi, 0, sizeof(fi));
  fi.device = strtoull(f[0].c_str(), 0, 10); fi.inode = strtoull(f[1].c_str(), 0, 10);
  fi.mode = strtoull(f[2].c_str(), 0, 10); fi.size = strtoull(f[3].c_str(), 0, 10);
  fi.modTime.seconds = strtoull(f[4].c_str(), 0, 10); fi.modTime.nanoseconds = strtoull(f[5].c_str(), 0, 10);
  std::string ck = unhex(f[6]); for (size_t i = 0; i < 32 && i < ck.size(); i++) fi.checksum.bytes[i] = (uint8_t)ck[i];
  return fi;
}
static std::string showFI(const FileInfo& fi) {
  return u64s(fi.device) + ":" + u64s(fi.inode) + ":" + u64s(fi.mode) + ":" + u64s(fi.size) + ":" +
         u64s(fi.modTime.seconds) + ":" + u64s(fi.modTime.nanoseconds) + ":" + hex(fi.checksum.bytes, 32);
}
static std::vector<FileInfo> parseFIs(const std::string& s) {
  std::vector<FileInfo> r; if (s == ".") return r; for (auto& x : split(s, ';')) r.push_back(parseFI(x)); return r;
}
static BuildValue makeValue(int kind, uint64_t sig, const std::vector<FileInfo>& infos, const SV& strs) {
  basic::CommandSignature cs(sig);
  switch (kind) {
  case 0: return BuildValue::makeInvalid();
  case 1: return BuildValue::makeVirtualInput();
  case 2: return BuildValue::makeExistingInput(infos[0]);
  case 3: return BuildValue::makeMissingInput();
  case 4: return BuildValue::makeDirectoryContents(infos[0], strs);
  case 5: return BuildValue::makeDirectoryTreeSignature(cs);
  case 6: return BuildValue::makeDirectoryTreeStructureSignature(cs);
  case 7: return BuildValue::makeStaleFileRemoval(strs);
  case 8: return BuildValue::makeMissingOutput();
  case 9: return BuildValue::makeFailedInput();
  case 10: return BuildValue::makeSuccessfulCommand(infos);
  case 11: return BuildValue::makeFailedCommand();
  case 12: return BuildValue::makePropagatedFailureCommand();
  case 13: return BuildValue::makeCancelledCommand();
  case 14: return BuildValue::makeSkippedCommand();
  case 15: return BuildValue::makeTarget();
  case 16: return BuildValue::makeFilteredDirectoryContents(strs);
  case 17: return BuildValue::makeSuccessfulCommandWithOutputSignature(infos, cs);
  }
  return BuildValue::makeInvalid();
}
static std::string vbytes(const BuildValue& v) { auto d = v.toData(); return hex(d.data(), d.size()); }
static std::string showValue(const BuildValue& v) {
  int k = (int)v.getKind(); std::string r = std::to_string(k);
  bool hs = (k == 5 || k == 6 || k == 17), hi = (k == 2 || k == 10 || k == 17 || k == 4), hl = (k == 4 || k == 16 || k == 7);
  uint64_t sig = 0;
  if (k == 5) sig = v.getDirectoryTreeSignature().value; else if (k == 6) sig = v.getDirectoryTreeStructureSignature().value;
  else if (k == 17) sig = v.getOutputSignature().value;
  r += " " + u64s(sig) + " ";
  if (hi) { for (unsigned i = 0; i < v.getNumOutputs(); i++) { if (i) r += ";"; r += showFI(v.getNthOutputInfo(i)); } if (v.getNumOutputs() == 0) r += "."; }
  else r += ".";
  r += " ";
  if (hl) { SV l; auto vals = (k == 7) ? v.getStaleFileList() : v.getDirectoryContents(); for (auto x : vals) l.push_back(x.str()); r += enlist(l); }
  else r += ".";
  return r;
}
static BuildKey makeKey(int kind, const std::string& name, const std::string& data, const SV& filters) {
  basic::StringList fl{ArrayRef<std::string>(filters)};
  switch (kind) {
  case 0: return BuildKey::makeCommand(name);
  case 1: return BuildKey::makeCustomTask(name, data);
  case 2: return BuildKey::makeDirectoryContents(name);
  case 3: return BuildKey::makeFilteredDirectoryContents(name, fl);
  case 4: return BuildKey::makeDirectoryTreeSignature(name, fl);
  case 5: return BuildKey::makeDirectoryTreeStructureSignature(name, fl);
  case 6: return BuildKey::makeNode(name);
  case 7: return BuildKey::makeStat(name);
  default: return BuildKey::makeTarget(name);
  }
}
static std::string showKey(const BuildKey& k) {
  int kind = (int)k.getKind(); std::string r = std::to_string(kind) + " ";
  auto fl = [&]() { SV l; basic::StringList sl = k.getContentExclusionPatternsAsStringList(); for (auto x : sl.getValues()) l.push_back(x.str()); return enlist(l); };
  switch (k.getKind()) {
  case BuildKey::Kind::Command: return r + hex(k.getCommandName().str()) + " - .";
  case BuildKey::Kind::CustomTask: return r + hex(k.getCustomTaskName().str()) + " " + hex(k.getCustomTaskData().str()) + " .";
  case BuildKey::Kind::DirectoryContents: return r + hex(k.getDirectoryPath().str()) + " - .";
  case BuildKey::Kind::FilteredDirectoryContents: return r + hex(k.getFilteredDirectoryPath().str()) + " - " + fl();
  case BuildKey::Kind::DirectoryTreeSignature: return r + hex(k.getDirectoryTreeSignaturePath().str()) + " - " + fl();
  case BuildKey::Kind::DirectoryTreeStructureSignature: return r + hex(k.getFilteredDirectoryPath().str()) + " - " + fl();
  case BuildKey::Kind::Node: return r + hex(k.getNodeName().str()) + " - .";
  case BuildKey::Kind::Stat: return r + hex(k.getStatName().str()) + " - .";
  case BuildKey::Kind::Target: return r + hex(k.getTargetName().str()) + " - .";
  default: return r + "- - .";
  }
}

static std::vector<FileInfo> g_slots;
static std::string handle(const SV& t) {
  const std::string& c = t[0];
  if (c == "pip" && t.size() == 3)
    return buildsystem::pathIsPrefixedByPath(unhex(t[1]), unhex(t[2])) ? "1" : "0";
  if (c == "shell_escaped" && t.size() == 2) {
    return hex(basic::shellEscaped(unhex(t[1])));
  }
  // value_enc <kind> <sig> <infos> <strs>: bytes of toData(); the same value reached through copy, move,
  // move-assignment over a multi-output value and decode(encode) must give identical bytes
  if (c == "value_enc" && t.size() == 5) {
    int kind = atoi(t[1].c_str()); uint64_t sig = strtoull(t[2].c_str(), 0, 10);
    auto infos = parseFIs(t[3]); SV strs = unlist(t[4]);
    BuildValue v = makeValue(kind, sig, infos, strs);
    std::string b0 = vbytes(v);
    BuildValue cp(v); std::string b1 = vbytes(cp);
    BuildValue mv(std::move(cp)); std::string b2 = vbytes(mv);
    FileInfo z[3]; memset(z, 0xAB, sizeof(z));
    BuildValue tgt = BuildValue::makeSuccessfulCommand(ArrayRef<FileInfo>(z, 3));
    tgt = std::move(mv); std::string b3 = vbytes(tgt);
    auto d = v.toData(); BuildValue rd = BuildValue::fromData(d); std::string b4 = vbytes(rd);
    if (b1 != b0 || b2 != b0 || b3 != b0 || b4 != b0)
      return "INCONSISTENT direct=" + b0 + " copy=" + b1 + " move=" + b2 + " moveassign=" + b3 + " redecoded=" + b4;
    return b0;
  }
  // value_many <kind 10|17> <n>: n distinct infos; encode, decode, compare every info; also a second value that
  // differs only in the last info must encode differently
  if (c == "value_many" && t.size() == 3) {
    int kind = atoi(t[1].c_str()); size_t n = strtoull(t[2].c_str(), 0, 10);
    std::vector<FileInfo> infos(n); memset(infos.data(), 0, n * sizeof(FileInfo));
    for (size_t i = 0; i < n; i++) { infos[i].inode = i + 1; infos[i].size = 7 * i; }
    BuildValue v = makeValue(kind, 5, infos, SV{});
    auto d = v.toData(); BuildValue rd = BuildValue::fromData(d);
    if ((int)rd.getKind() != kind) return "MISMATCH kind " + std::to_string((int)rd.getKind());
    if (rd.getNumOutputs() != n) return "MISMATCH count " + std::to_string(rd.getNumOutputs());
    for (size_t i = 0; i < n; i++) if (!(rd.getNthOutputInfo(i) == infos[i]) || rd.getNthOutputInfo(i).mode != infos[i].mode) return "MISMATCH info " + std::to_string(i);
    infos[n - 1].size ^= 1; BuildValue v2 = makeValue(kind, 5, infos, SV{});
    if (v2.toData() == d) return "MISMATCH collision: a value differing in the last output encodes identically";
    return "OK " + std::to_string(n) + " " + std::to_string(d.size());
  }
  if (c == "value_dec" && t.size() == 2) {
    std::string b = unhex(t[1]); core::ValueType d(b.begin(), b.end());
    BuildValue v = BuildValue::fromData(d);
    return showValue(v);
  }
  if (c == "key_enc" && t.size() == 5) {
    BuildKey k = makeKey(atoi(t[1].c_str()), unhex(t[2]), unhex(t[3]), unlist(t[4]));
    return hex(k.toData().str());
  }
  if (c == "key_dec" && t.size() == 2) {
    BuildKey k = BuildKey::fromData(core::KeyType(unhex(t[1])));
    return showKey(k);
  }
  // fs_obs <slot> <mode 0|1|2> <link 0|1> <hexpath>: observe through the real FileSystem wrappers, keep in a slot
  if (c == "fs_obs" && t.size() == 5) {
    static std::unique_ptr<basic::FileSystem> fss[3];
    if (!fss[0]) { fss[0] = basic::createLocalFileSystem(); fss[1] = basic::DeviceAgnosticFileSystem::from(basic::createLocalFileSystem());
                   fss[2] = basic::ChecksumOnlyFileSystem::from(basic::createLocalFileSystem()); }
    int slot = atoi(t[1].c_str()), mode = atoi(t[2].c_str()); bool link = t[3] == "1";
    FileInfo fi = link ? fss[mode]->getLinkInfo(unhex(t[4])) : fss[mode]->getFileInfo(unhex(t[4]));
    if ((int)g_slots.size() <= slot) g_slots.resize(slot + 1);
    g_slots[slot] = fi;
    return showFI(fi) + " " + (fi.isMissing() ? "1" : "0");
  }
  if (c == "fs_eq" && t.size() == 3) {
    const FileInfo& a = g_slots[atoi(t[1].c_str())]; const FileInfo& b = g_slots[atoi(t[2].c_str())];
    bool e = (a == b), ne = (a != b);
    return std::string(e ? "1" : "0") + (e == ne ? " INCONSISTENT-NEQ" : "");
  }
  // probe_codec: tag byte of an instance of every value kind (enum order), identifierForKind for every key kind,
  // kindForIdentifier for every char
  if (c == "probe_codec") {
    std::string r = "value_tags";
    FileInfo fi; memset(&fi, 0, sizeof(fi)); fi.inode = 1; std::vector<FileInfo> one{fi};
    for (int k = 0; k < 18; k++) { BuildValue v = makeValue(k, 1, one, SV{"x"}); auto d = v.toData(); r += " " + std::to_string((int)d[0]) + ":" + std::to_string((int)v.getKind()); }
    r += " | char_of_kind";
    for (int k = 0; k < 9; k++) r += " " + std::to_string((int)(unsigned char)BuildKey::identifierForKind((BuildKey::Kind)k));
    r += " | kind_of_char";
    for (int ch = 0; ch < 256; ch++) r += " " + std::to_string((int)BuildKey::kindForIdentifier((char)ch));
    return r;
  }
  return "ERR unknown";
}
int main() {
  std::string line;
  while (std::getline(std::cin, line)) {
    if (line.empty()) { puts(""); fflush(stdout); continue; }
    std::string r = handle(split(line, ' '));
    fputs(r.c_str(), stdout); fputc('\n', stdout); fflush(stdout);
  }
  return 0;
}
