// Engine driver: interprets a scenario (rule DSL + history) on the REAL core::BuildEngine and prints the events a
// client can observe.  The same scenario is run by the extracted Coq model (ocaml/vmodel_engine.ml).
//
// usage: engine_driver <scenario> [<workdir>]        (workdir: where the sqlite db and graph dumps go)
//
// scenario lines (keys are numbers; key i is named "k<i>" unless a `name` line gives it other bytes):
//   name <i> <hex>
//   rule <k> sig=<n> obs=<0|1> req=a,b single=c follow=d br=<slot>:<a,b>:<c,d> disc=e ord=<perm of rsf>    (takes effect at the next engine instance;
//                                    ord: order in which request / requestSingleUse / mustFollow are CALLED, slot ids stay req first then single)
//   set <k> <n>                      external state
//   db <0|1|2>                       following engine instances attach a SQLite database in <workdir>/build.db (default 0; 1 removes an
//                                    existing file first, 2 keeps it);  recreate <0|1>: recreateUnmatchedVersion flag (default 1)
//   schema <n>                       client schema version used when attaching (default 1)
//   restart                          new engine instance (over the same database when db=1)
//   build <k> [sched=sync|defer:<seed>|mixed:<seed>|threads:<seed>[:<maxus>]] [cancel=iter:<n>|cb:<n>|thread:<us>]
//   fresh <k>                        build k in a brand-new engine without database; prints freshval lines (oracle)
//   foreign <schema> <recreate> <k>  a second engine + BuildDB object (other client schema version) builds k on the same file while the current one stays alive
//   rule ... prq=a,b                 keys requested only from inside providePriorValue (oracle-only scenarios: no model counterpart)
#include "common.h"
#include "llbuild/Core/BuildEngine.h"
#include "llbuild/Core/BuildDB.h"
#include "llbuild/Basic/ExecutionQueue.h"
#include <map>
#include <set>
#include <fstream>
#include <thread>
#include <mutex>
#include <random>
#include <algorithm>
#include <unistd.h>
#include <atomic>
#include <signal.h>
#include <time.h>
#include <cstdarg>
#include <sqlite3.h>
using namespace llbuild;
using namespace llbuild::core;

extern "C" { extern void (*llbuild_verif_engine_hook)(int point, const void* data); }

struct RuleDef {
  uint64_t sig = 0; bool obs = true; std::vector<int> req, single, follow, brA, brB, disc, prq; int brslot = -1; bool defined = false; std::string ord = "rsf";
  int proc_ms = -1;   // proc=<ms>: the task computes by running `sleep <ms>` as a real child on the engine's execution queue (TaskInterface::spawn)
  int bad = 0;        // bad=1: start() requests a RESERVED input id (engine-internal failure); bad=2: the same, from provideValue
};
static std::map<int, RuleDef> g_pending, g_defs;     // pending: as written so far; defs: snapshot seen by the current engine
static std::map<int, uint64_t> g_env;
static std::map<int, std::string> g_names;
static std::map<std::string, int> g_ids;
static std::mutex g_out;
static bool g_quiet = false;                          // suppress events (fresh-engine oracle)
static bool g_in_build = false;
static std::map<int, std::string> g_freshvals;

static std::string kname(int k) { auto it = g_names.find(k); return it != g_names.end() ? it->second : "k" + std::to_string(k); }
static int kid(const std::string& s) {
  auto it = g_ids.find(s); if (it != g_ids.end()) return it->second;
  if (s.size() > 1 && s[0] == 'k') return atoi(s.c_str() + 1);
  return -1;
}
static RuleDef& def(int k) { auto& d = g_defs[k]; return d; }

static const uint64_t M = 1000003ULL;
static uint64_t mix(uint64_t h, uint64_t x) { h ^= x + 0x9e3779b97f4a7c15ULL + (h << 6) + (h >> 2); return h % M; }
struct Val { bool empty = true; uint64_t p = 0, s = 0; };
static ValueType enc(uint64_t p, uint64_t s) { ValueType r(16); for (int i = 0; i < 8; i++) { r[i] = (p >> (8 * i)) & 0xff; r[8 + i] = (s >> (8 * i)) & 0xff; } return r; }
static Val dec(const ValueType& v) { Val r; if (v.size() != 16) return r; r.empty = false; for (int i = 0; i < 8; i++) { r.p |= uint64_t(v[i]) << (8 * i); r.s |= uint64_t(v[8 + i]) << (8 * i); } return r; }
static std::string vs(const ValueType& v) { if (v.empty()) return "EMPTY"; Val x = dec(v); if (x.empty) return "BAD" + std::to_string(v.size()); return std::to_string(x.p) + "." + std::to_string(x.s); }

static void ev(const char* fmt, ...) {
  if (g_quiet) return;
  std::lock_guard<std::mutex> g(g_out);
  if (!g_in_build) fputs("LATE-CALLBACK ", stdout);
  va_list ap; va_start(ap, fmt); vprintf(fmt, ap); va_end(ap); fputc('\n', stdout);
}

// ---- schedule / cancellation control
static BuildEngine* g_engine = nullptr;
enum Sched { SYNC, DEFER, MIXED, THREADS };
static Sched g_sched = SYNC; static std::mt19937 g_rng; static unsigned g_maxus = 1200;
struct Pending { int k; TaskInterface ti; ValueType v; std::vector<int> disc; };
static std::vector<Pending> g_pend; static std::mutex g_pm;
static std::vector<std::thread> g_threads;
static bool g_lanes = false;                        // "queue lanes": the delegate hands the engine a lane based queue (2 lanes) instead of the serial one
static std::mutex g_pidm; static std::vector<long> g_pids;
static long g_cancel_iter = -1, g_cancel_cb = -1, g_iter = 0, g_cb = 0; static bool g_cancel_sent = false;

static void finish(Pending& p) {
  for (int d : p.disc) p.ti.discoveredDependency(kname(d));
  ev("complete %d %s", p.k, vs(p.v).c_str());
  p.ti.complete(std::move(p.v));
}
static void complete_some(size_t n) {
  std::vector<Pending> take;
  {
    std::lock_guard<std::mutex> g(g_pm);
    std::sort(g_pend.begin(), g_pend.end(), [](const Pending& a, const Pending& b) { return a.k < b.k; });
    while (n-- && !g_pend.empty()) { size_t i = g_rng() % g_pend.size(); take.push_back(std::move(g_pend[i])); g_pend.erase(g_pend.begin() + i); }
  }
  for (auto& p : take) finish(p);
}
static void count_cb() {
  if (g_cancel_cb >= 0 && !g_cancel_sent && g_cb++ == g_cancel_cb) { g_cancel_sent = true; ev("cancel-sent cb"); g_engine->cancelBuild(); }
}
static const bool g_marks = getenv("VERIF_ITER_MARKS") != nullptr;     // optional iteration markers (default traces unchanged)
static void hook(int point, const void* data) {
  if (g_marks && point == 0) ev("iter %ld", g_iter);
  if (g_marks && point == 1) ev("wait");
  if (g_marks && point == 2) ev("drain");
  if (point == 0) {
    if (g_cancel_iter >= 0 && !g_cancel_sent && g_iter == g_cancel_iter) { g_cancel_sent = true; ev("cancel-sent iter"); g_engine->cancelBuild(); }
    g_iter++;
    if (g_sched == MIXED && !g_pend.empty() && g_rng() % 3 == 0) complete_some(1);
  } else if (point == 1) {
    if ((g_sched == DEFER || g_sched == MIXED) && !g_pend.empty()) complete_some(1 + g_rng() % g_pend.size());
  } else if (point == 2) {
    if (g_sched == DEFER || g_sched == MIXED) complete_some(g_pend.size());
  } else if (point == 3 && !g_quiet) {
    auto* edges = (const std::vector<std::pair<std::string, std::string>>*)data;
    std::vector<std::pair<int, int>> e; for (auto& p : *edges) e.push_back({kid(p.first), kid(p.second)});
    std::sort(e.begin(), e.end());
    std::string s = "waitgraph"; for (auto& p : e) s += " " + std::to_string(p.first) + ">" + std::to_string(p.second);
    ev("%s", s.c_str());
  }
}

struct DTask : Task {
  int k; RuleDef d; uint64_t rsig; std::vector<Val> slots; std::vector<bool> single; bool branched = false;
  DTask(int k, uint64_t rsig) : k(k), d(def(k)), rsig(rsig) {}
  void req(TaskInterface ti, int key, bool su) {
    size_t id = slots.size(); slots.push_back(Val()); single.push_back(su);
    if (su) ti.requestSingleUse(kname(key), id); else ti.request(kname(key), id);
  }
  void start(TaskInterface ti) override {
    ev("start %d", k); count_cb();
    // slot ids are fixed by kind (requests first, then single-use), the ORDER of the API calls follows d.ord
    // ("rsf" = request, requestSingleUse, mustFollow; any permutation): the engine records dependencies in call order
    size_t nreq = d.req.size(), nsingle = d.single.size();
    slots.assign(nreq + nsingle, Val()); single.assign(nreq + nsingle, false);
    for (size_t j = 0; j < nsingle; j++) single[nreq + j] = true;
    for (char c : d.ord) {
      if (c == 'r') for (size_t i = 0; i < nreq; i++) ti.request(kname(d.req[i]), i);
      else if (c == 's') for (size_t j = 0; j < nsingle; j++) ti.requestSingleUse(kname(d.single[j]), nreq + j);
      else if (c == 'f') for (int r : d.follow) ti.mustFollow(kname(r));
    }
    if (d.bad == 1) ti.request(kname(k + 1000), BuildEngine::kMaximumInputID + 1);
  }
  void providePriorValue(TaskInterface ti, const ValueType& v) override {
    ev("prior %d %s", k, vs(v).c_str()); count_cb();
    // prq=: keys requested (only) from inside providePriorValue; their values are delivered but not used (like single-use ones).
    // No model counterpart: scenarios using it are judged by the protocol oracle only.
    for (int r : d.prq) { size_t id = slots.size(); slots.push_back(Val()); single.push_back(true); ti.request(kname(r), id); }
  }
  void provideValue(TaskInterface ti, uintptr_t id, const KeyType& key, const ValueType& v) override {
    ev("provide %d %lu %d %s", k, (unsigned long)id, kid(key.str()), vs(v).c_str());
    if (id < slots.size()) slots[id] = dec(v);
    if (d.bad == 2) { d.bad = 0; ti.request(kname(k + 1000), BuildEngine::kMaximumInputID + 1); }
    if (!branched && d.brslot >= 0 && (int)id == d.brslot && d.brslot < (int)d.req.size()) {
      branched = true;
      for (int r : (slots[id].p % 2 == 0 ? d.brA : d.brB)) req(ti, r, false);
    }
    count_cb();
  }
  void inputsAvailable(TaskInterface ti) override {
    ev("avail %d", k); count_cb();
    uint64_t obs = d.obs ? g_env[k] : 0;
    uint64_t h = ((uint64_t)k + rsig * 7) % M;
    for (size_t i = 0; i < slots.size(); i++) if (!single[i]) { h = mix(h, slots[i].p); h = mix(h, slots[i].s); }
    for (int x : d.disc) h = mix(h, g_env[x] + 1);
    h = mix(h, obs);
    if (k % 3 == 0) h = h % 2;
    Pending p{k, ti, enc(h, obs), d.disc};
    if (g_quiet) g_freshvals[k] = vs(p.v);
    if (d.proc_ms >= 0 && !g_quiet) {
      struct JD : basic::JobDescriptor {
        llvm::StringRef getOrdinalName() const override { return "proc"; }
        void getShortDescription(llvm::SmallVectorImpl<char>& r) const override {}
        void getVerboseDescription(llvm::SmallVectorImpl<char>& r) const override {}
      };
      static JD jd; int ms = d.proc_ms; int kk = k;
      ti.spawn(basic::QueueJob{&jd, [ti, p, ms, kk](basic::QueueJobContext* ctx) mutable {
        char buf[32]; snprintf(buf, sizeof buf, "%d.%03d", ms / 1000, ms % 1000);
        std::vector<llvm::StringRef> cmd{"/bin/sleep", buf};
        basic::ProcessStatus st = ti.spawn(ctx, cmd);
        ev("procdone %d %s", kk, st == basic::ProcessStatus::Succeeded ? "succeeded" : st == basic::ProcessStatus::Cancelled ? "cancelled" : st == basic::ProcessStatus::Failed ? "failed" : "skipped");
        finish(p);
      }});
      return;
    }
    if (g_sched == SYNC || g_quiet) { finish(p); return; }
    if (g_sched == THREADS) {
      int us; { std::lock_guard<std::mutex> g(g_pm); us = g_maxus ? g_rng() % g_maxus : 0; }
      g_threads.emplace_back([p, us]() mutable { usleep(us); finish(p); });
      return;
    }
    std::lock_guard<std::mutex> g(g_pm); g_pend.push_back(std::move(p));
  }
};
struct DRule : Rule {
  int k;
  DRule(const KeyType& key, int k, uint64_t sig) : Rule(key, basic::CommandSignature(sig)), k(k) {}
  // rule callbacks are cancellation points too (cancel=cb:n counts them together with the task callbacks)
  Task* createTask(BuildEngine&) override { ev("create %d", k); count_cb(); return new DTask(k, signature.value); }
  bool isResultValid(BuildEngine&, const ValueType& v) override {
    bool r = true; if (def(k).obs) { Val x = dec(v); r = !x.empty && x.s == g_env[k]; }
    ev("valid %d %d", k, r ? 1 : 0); count_cb(); return r;
  }
  void updateStatus(BuildEngine&, StatusKind s) override { /* status changes are checked by the protocol automaton */ (void)s; }
};
struct Del : BuildEngineDelegate, basic::ExecutionQueueDelegate {
  std::unique_ptr<Rule> lookupRule(const KeyType& key) override {
    int k = kid(key.str()); RuleDef& d = def(k);
    return std::unique_ptr<Rule>(new DRule(key, k, d.sig));
  }
  void determinedRuleNeedsToRun(Rule* r, Rule::RunReason reason, Rule* in) override {
    ev("need %d %d %s", kid(r->key.str()), (int)reason, in ? std::to_string(kid(in->key.str())).c_str() : "-");
  }
  void cycleDetected(const std::vector<Rule*>& items) override {
    std::string s = "cycle"; for (auto* r : items) s += " " + std::to_string(kid(r->key.str())); ev("%s", s.c_str());
  }
  void error(const llvm::Twine& m) override { std::string t = m.str(); for (auto& c : t) if (c == '\n') c = ' '; ev("error %s", t.c_str()); }
  void processStarted(basic::ProcessContext*, basic::ProcessHandle, llbuild_pid_t pid) override { std::lock_guard<std::mutex> g(g_pidm); g_pids.push_back((long)pid); }
  void processHadError(basic::ProcessContext*, basic::ProcessHandle, const llvm::Twine&) override {}
  void processHadOutput(basic::ProcessContext*, basic::ProcessHandle, llvm::StringRef) override {}
  void processFinished(basic::ProcessContext*, basic::ProcessHandle, const basic::ProcessResult&) override {}
  void queueJobStarted(basic::JobDescriptor*) override {}
  void queueJobFinished(basic::JobDescriptor*) override {}
  std::unique_ptr<basic::ExecutionQueue> createExecutionQueue() override {
    if (g_lanes) return std::unique_ptr<basic::ExecutionQueue>(basic::createLaneBasedExecutionQueue(*this, 2, basic::SchedulerAlgorithm::NamePriority, basic::QualityOfService::Normal, nullptr));
    return createSerialQueue(*this, nullptr);
  }
};

static std::vector<int> ints(const std::string& s) { std::vector<int> r; if (s.empty()) return r; for (auto& x : split(s, ',')) if (!x.empty()) r.push_back(atoi(x.c_str())); return r; }

static void dump_deps(BuildEngine* e, const std::string& wd) {
  // dumpGraphToFile prints keys with "%s": a key is cut at its first NUL and may contain quotes or newlines, so the file is parsed
  // against the known key spellings (longest first) instead of line by line.
  std::string path = wd + "/graph.dot"; e->dumpGraphToFile(path);
  std::ifstream g(path, std::ios::binary); std::stringstream ss; ss << g.rdbuf(); std::string c = ss.str();
  std::vector<std::pair<std::string, int>> printed; std::set<int> seen;
  std::set<int> all; for (auto& kv : g_pending) all.insert(kv.first); for (auto& kv : g_defs) all.insert(kv.first); for (auto& kv : g_names) all.insert(kv.first);
  for (int k : all) { std::string n = kname(k); printed.push_back({n.substr(0, n.find('\0')), k}); }
  std::sort(printed.begin(), printed.end(), [](const std::pair<std::string, int>& a, const std::pair<std::string, int>& b) {
    return a.first.size() != b.first.size() ? a.first.size() > b.first.size() : a.second < b.second; });
  for (size_t i = 0; i + 1 < printed.size(); i++) for (size_t j = i + 1; j < printed.size(); j++)
    if (printed[i].first == printed[j].first) { ev("deps-unavailable"); return; }       // two keys print alike: the dump is ambiguous
  // tolerant of the dump's layout (the properties do not fix it): leading blanks, DOT escapes (\" and \\) inside the quoted keys,
  // attributes after an edge (" [style=dashed]"), a trailing ';'
  auto esc = [](const std::string& v) { std::string r; for (char ch : v) { if (ch == '"' || ch == '\\') r += '\\'; r += ch; } return r; };
  auto matchq = [&](size_t pos, int& id, size_t& next) {
    for (auto& pr : printed) for (int variant = 0; variant < 2; variant++) { std::string want = "\"" + (variant ? esc(pr.first) : pr.first) + "\"";
      if (c.compare(pos, want.size(), want) == 0) { id = pr.second; next = pos + want.size(); return true; } }
    return false; };
  auto skipws = [&](size_t p) { while (p < c.size() && (c[p] == ' ' || c[p] == '\t')) p++; return p; };
  auto eol = [&](size_t p) { size_t q = c.find('\n', p); return q == std::string::npos ? c.size() : q; };
  std::map<int, std::string> dl; std::vector<int> order;
  size_t pos = c.find("\n\n"); pos = pos == std::string::npos ? c.size() : pos + 2;
  while (pos < c.size()) {
    if (c[pos] == '\n') { pos++; continue; }
    size_t p = skipws(pos);
    if (p >= c.size() || c[p] == '}') break;
    if (c[p] == '\n') { pos = p; continue; }
    int a, b; size_t nx, nx2;
    if (c[p] == '"' && matchq(p, a, nx)) {
      size_t q = skipws(nx);
      if (c.compare(q, 2, "->") == 0) {
        q = skipws(q + 2);
        if (q < c.size() && c[q] == '"' && matchq(q, b, nx2)) { if (!dl.count(a)) order.push_back(a); dl[a] += " " + std::to_string(b); pos = eol(nx2); continue; }
      } else { pos = eol(q); continue; }       // a node line
    }
    ev("deps-unavailable"); return;
  }
  std::sort(order.begin(), order.end());
  for (int a : order) ev("deps %d%s", a, dl[a].c_str());
}

// independent read of the database file through a second connection (what a later process would see)
static void dump_db(const std::string& dbpath) {
  sqlite3* db = nullptr;
  if (sqlite3_open_v2(dbpath.c_str(), &db, SQLITE_OPEN_READONLY, nullptr) != SQLITE_OK) { printf("dberror open\n"); if (db) sqlite3_close(db); return; }
  std::map<long long, std::string> names; sqlite3_stmt* st = nullptr;
  if (sqlite3_prepare_v2(db, "SELECT id, key FROM key_names", -1, &st, nullptr) == SQLITE_OK) {
    while (sqlite3_step(st) == SQLITE_ROW) names[sqlite3_column_int64(st, 0)] = std::string((const char*)sqlite3_column_blob(st, 1), sqlite3_column_bytes(st, 1));
  }
  sqlite3_finalize(st);
  std::vector<std::string> rows;
  if (sqlite3_prepare_v2(db, "SELECT key_id, value, signature, built_at, computed_at, dependencies FROM rule_results", -1, &st, nullptr) == SQLITE_OK) {
    while (sqlite3_step(st) == SQLITE_ROW) {
      long long id = sqlite3_column_int64(st, 0);
      ValueType v((const uint8_t*)sqlite3_column_blob(st, 1), (const uint8_t*)sqlite3_column_blob(st, 1) + sqlite3_column_bytes(st, 1));
      const uint8_t* d = (const uint8_t*)sqlite3_column_blob(st, 5); int n = sqlite3_column_bytes(st, 5);
      char buf[256]; snprintf(buf, sizeof buf, "dbrow %08d %s %llu %lld %lld", kid(names[id]), vs(v).c_str(),
                              (unsigned long long)sqlite3_column_int64(st, 2), (long long)sqlite3_column_int64(st, 4), (long long)sqlite3_column_int64(st, 3));
      std::string r = buf;
      for (int i = 0; i + 8 <= n; i += 8) { uint64_t x = 0; for (int j = 0; j < 8; j++) x |= uint64_t(d[i + j]) << (8 * j);
        r += " " + (names.count(x >> 2) ? std::to_string(kid(names[x >> 2])) : std::string("?")) + ":" + std::to_string(x & 3); }
      if (n % 8) r += " TRAILING-BYTES";
      rows.push_back(r);
    }
  }
  sqlite3_finalize(st);
  std::sort(rows.begin(), rows.end());
  for (auto& r : rows) { int k = atoi(r.c_str() + 6); printf("dbrow %d%s\n", k, r.c_str() + 14); }
  if (sqlite3_prepare_v2(db, "SELECT iteration FROM info", -1, &st, nullptr) == SQLITE_OK && sqlite3_step(st) == SQLITE_ROW)
    printf("dbepoch %lld\n", (long long)sqlite3_column_int64(st, 0));
  sqlite3_finalize(st); sqlite3_close(db);
}

// "failwrite n": the database handed to the next engines fails the n-th setRuleResult of every build (a write fault: the engine reports the
// error and cancels the build; it must still return, and later builds over the same database must be clean)
static long g_failwrite = 0;
struct FailingDB : BuildDB {
  std::unique_ptr<BuildDB> inner; long n = 0;
  explicit FailingDB(std::unique_ptr<BuildDB> d) : inner(std::move(d)) {}
  void attachDelegate(BuildDBDelegate* d) override { inner->attachDelegate(d); }
  Epoch getCurrentEpoch(bool* ok, std::string* e) override { return inner->getCurrentEpoch(ok, e); }
  bool setCurrentIteration(uint64_t v, std::string* e) override { return inner->setCurrentIteration(v, e); }
  bool lookupRuleResult(KeyID id, const KeyType& key, Result* r, std::string* e) override { return inner->lookupRuleResult(id, key, r, e); }
  bool setRuleResult(KeyID id, const Rule& rule, const Result& r, std::string* e) override {
    if (g_failwrite > 0 && ++n == g_failwrite) { if (e) *e = "injected write fault"; return false; }
    return inner->setRuleResult(id, rule, r, e);
  }
  bool buildStarted(std::string* e) override { n = 0; return inner->buildStarted(e); }
  void buildComplete() override { inner->buildComplete(); }
  bool getKeys(std::vector<KeyType>& keys, std::string* e) override { return inner->getKeys(keys, e); }
  bool getKeysWithResult(std::vector<KeyType>& keys, std::vector<Result>& results, std::string* e) override { return inner->getKeysWithResult(keys, results, e); }
  void dump(llvm::raw_ostream& os) override { inner->dump(os); }
};

int main(int argc, char** argv) {
  std::ifstream in(argv[1]); std::string wd = argc > 2 ? argv[2] : "."; std::string dbpath = wd + "/build.db";
  bool usedb = false; uint32_t schema = 1; int nbuild = 0; bool recreate = true;
  llbuild_verif_engine_hook = hook;
  Del* del = nullptr; BuildEngine* e = nullptr;
  auto newengine = [&](bool attach) {
    if (e) { delete e; delete del; }
    g_defs = g_pending; del = new Del; e = new BuildEngine(*del); g_engine = e;
    if (attach) {
      std::string err; auto db = createSQLiteBuildDB(dbpath, schema, /*recreateUnmatchedVersion=*/recreate, &err);
      if (!db) { printf("attach-error %s\n", err.c_str()); return; }
      if (g_failwrite > 0) db = std::unique_ptr<BuildDB>(new FailingDB(std::move(db)));
      if (!e->attachDB(std::move(db), &err)) printf("attach-error %s\n", err.c_str());
    }
  };
  std::string line; bool started = false;
  while (std::getline(in, line)) {
    if (line.empty() || line[0] == '#') continue;
    SV t = split(line, ' ');
    if (t[0] == "name") { g_names[atoi(t[1].c_str())] = unhex(t[2]); g_ids[unhex(t[2])] = atoi(t[1].c_str()); }
    else if (t[0] == "rule") {
      RuleDef d; d.defined = true; int k = atoi(t[1].c_str());
      for (size_t i = 2; i < t.size(); i++) {
        auto eq = t[i].find('='); std::string a = t[i].substr(0, eq), b = eq == std::string::npos ? "" : t[i].substr(eq + 1);
        if (a == "sig") d.sig = strtoull(b.c_str(), 0, 10); else if (a == "obs") d.obs = b == "1";
        else if (a == "req") d.req = ints(b); else if (a == "single") d.single = ints(b); else if (a == "follow") d.follow = ints(b);
        else if (a == "disc") d.disc = ints(b);
        else if (a == "ord" && b.size() == 3) d.ord = b;
        else if (a == "prq") d.prq = ints(b);
        else if (a == "proc") d.proc_ms = atoi(b.c_str());
        else if (a == "bad") d.bad = atoi(b.c_str());
        else if (a == "br") { SV p = split(b, ':'); d.brslot = atoi(p[0].c_str()); d.brA = ints(p.size() > 1 ? p[1] : ""); d.brB = ints(p.size() > 2 ? p[2] : ""); }
      }
      g_pending[k] = d;
    }
    else if (t[0] == "set") g_env[atoi(t[1].c_str())] = strtoull(t[2].c_str(), 0, 10);
    else if (t[0] == "db") { usedb = t[1] != "0"; if (t[1] == "1" && !started) unlink(dbpath.c_str()); }   // db 2: attach to the existing file
    else if (t[0] == "recreate") recreate = t[1] == "1";
    else if (t[0] == "queue") g_lanes = t[1] == "lanes";
    else if (t[0] == "failwrite") g_failwrite = atol(t[1].c_str());
    else if (t[0] == "schema") schema = atoi(t[1].c_str());
    else if (t[0] == "restart") { newengine(usedb); started = true; printf("restart\n"); }
    else if (t[0] == "foreign") {
      // foreign <schema> <recreate 0|1> <key>: while the current engine (and its BuildDB object) stays alive, a SECOND engine with its own
      // BuildDB on the same file and another client schema version builds <key> and goes away (another tool sharing the database)
      auto saved = g_defs; g_defs = g_pending; g_quiet = true; g_cancel_iter = g_cancel_cb = -1;
      { Del d2; BuildEngine e2(d2); BuildEngine* se = g_engine; g_engine = &e2; Sched ss = g_sched; g_sched = SYNC;
        std::string err; auto db2 = createSQLiteBuildDB(dbpath, atoi(t[1].c_str()), t[2] == "1", &err);
        if (!db2 || !e2.attachDB(std::move(db2), &err)) printf("foreign-attach-error %s\n", err.c_str());
        else { g_in_build = true; auto& v = e2.build(kname(atoi(t[3].c_str()))); g_in_build = false; printf("foreign %s %s\n", t[3].c_str(), vs(v).c_str()); }
        g_sched = ss; g_engine = se; }
      g_quiet = false; g_defs = saved;
    }
    else if (t[0] == "fresh") {
      // oracle: a brand-new engine with no history, current rules and external state
      auto saved = g_defs; g_defs = g_pending; g_quiet = true; g_freshvals.clear(); g_cancel_iter = g_cancel_cb = -1;
      { Del d2; BuildEngine e2(d2); BuildEngine* se = g_engine; g_engine = &e2; Sched ss = g_sched; g_sched = SYNC;
        g_in_build = true; auto& v = e2.build(kname(atoi(t[1].c_str()))); g_in_build = false; g_sched = ss; g_engine = se;
        g_quiet = false; printf("fresh %s %s\n", t[1].c_str(), vs(v).c_str()); }
      for (auto& kv : g_freshvals) printf("freshval %d %s\n", kv.first, kv.second.c_str());
      g_defs = saved;
    }
    else if (t[0] == "build") {
      if (!started) { newengine(usedb); started = true; }
      g_sched = SYNC; g_cancel_iter = g_cancel_cb = -1; g_cancel_sent = false; g_iter = g_cb = 0; long cancel_us = -1;
      for (size_t i = 2; i < t.size(); i++) {
        if (t[i].compare(0, 6, "sched=") == 0) {
          SV p = split(t[i].substr(6), ':'); unsigned seed = p.size() > 1 ? atoi(p[1].c_str()) : 0; g_rng.seed(seed);
          g_sched = p[0] == "defer" ? DEFER : p[0] == "mixed" ? MIXED : p[0] == "threads" ? THREADS : SYNC;
          g_maxus = p.size() > 2 ? atoi(p[2].c_str()) : 1200;     // threads:<seed>:<max delay in us> (0 = complete at once)
        } else if (t[i].compare(0, 7, "cancel=") == 0) {
          SV p = split(t[i].substr(7), ':'); long n = atol(p[1].c_str());
          if (p[0] == "iter") g_cancel_iter = n; else if (p[0] == "cb") g_cancel_cb = n; else cancel_us = n;
        }
      }
      printf("build %d %s\n", ++nbuild, t[1].c_str());
      e->resetForBuild();
      std::thread canceller;
      // watchdog=<ms> (with cancel=thread): if build() has not returned <ms> after the cancellation was sent, say so and kill the children
      // the engine started (so that the scenario ends); a build that needs this help did not honour the cancellation
      long watchdog_ms = -1; for (size_t i = 2; i < t.size(); i++) if (t[i].compare(0, 9, "watchdog=") == 0) watchdog_ms = atol(t[i].c_str() + 9);
      std::atomic<bool> returned{false};
      { std::lock_guard<std::mutex> g(g_pidm); g_pids.clear(); }
      struct timespec t0; clock_gettime(CLOCK_MONOTONIC, &t0);
      if (cancel_us >= 0) canceller = std::thread([=, &returned]() {
        usleep(cancel_us); g_cancel_sent = true; g_engine->cancelBuild();     // (no event line: the build may already be over)
        if (watchdog_ms >= 0) {
          for (long w = 0; w < watchdog_ms && !returned; w += 10) usleep(10000);
          if (!returned) { { std::lock_guard<std::mutex> g(g_out); printf("WATCHDOG build() did not return within %ld ms of cancelBuild()\n", watchdog_ms); }
            std::lock_guard<std::mutex> g(g_pidm); for (long pid : g_pids) kill((pid_t)pid, SIGKILL); }
        }
      });
      g_in_build = true;
      auto& v = e->build(kname(atoi(t[1].c_str())));
      returned = true;
      std::string res = vs(v);
      if (canceller.joinable()) canceller.join();
      if (watchdog_ms >= 0) { struct timespec t1; clock_gettime(CLOCK_MONOTONIC, &t1);
        printf("elapsed_ms %ld\n", (long)((t1.tv_sec - t0.tv_sec) * 1000 + (t1.tv_nsec - t0.tv_nsec) / 1000000)); }
      for (auto& th : g_threads) th.join();
      g_threads.clear();
      g_in_build = false;
      { std::lock_guard<std::mutex> g(g_pm); if (!g_pend.empty()) { printf("leftover-pending %zu\n", g_pend.size()); g_pend.clear(); } }
      printf("result %s%s\n", res.c_str(), g_cancel_sent ? " cancelled" : "");
      printf("epoch %llu\n", (unsigned long long)e->getCurrentEpoch());
      g_in_build = true; dump_deps(e, wd); g_in_build = false;
      if (usedb) dump_db(dbpath);
      fflush(stdout);
    }
  }
  if (e) { delete e; delete del; }
  return 0;
}
