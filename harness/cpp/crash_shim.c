/* LD_PRELOAD fault injector for property C04 (process death at any database system call).
 *
 * Built by harness/py/props/c04.py into /verif/_work/crash/libcrashshim.so:
 *     cc -shared -fPIC -O1 crash_shim.c -o libcrashshim.so -ldl
 *
 * Interposes (through dlsym(RTLD_NEXT, ...)):
 *     open open64 openat openat64 write pwrite pwrite64 fsync fdatasync ftruncate ftruncate64
 *     unlink unlinkat rename            (counted when they target the database)
 *     close                             (never counted: only forgets the descriptor, descriptors get reused)
 * A call "targets the database" when its path's last component starts with "build.db" (build.db, build.db-journal,
 * build.db-wal, build.db-shm) or when its descriptor came from such an open.
 *
 * Environment:
 *     CRASH_AT=N          N >= 1: _exit(77) immediately BEFORE the N-th counted call is performed.
 *                         N = 0 / unset: only count.
 *     CRASH_COUNT_FILE=f  the total number of counted calls is written to f when the process exits normally.
 *     CRASH_LOG_FILE=f    one line per counted call: "<index> <syscall> <db|journal|wal|shm> <bytes or -> <offset or ->"
 *     CRASH_NOSYNC=1      counted fsync/fdatasync calls are counted, logged and killed-before as usual but not performed
 *                         (they only matter when the machine dies; the page cache survives the death of a process).
 *                         Used for the many killed / continuing processes; the reference runs sync for real.
 */
#define _GNU_SOURCE
#include <dlfcn.h>
#include <fcntl.h>
#include <stdarg.h>
#include <stdio.h>
#include <stdlib.h>
#include <string.h>
#include <unistd.h>
#include <sys/types.h>

#define MAXFD 4096
static unsigned char g_kind[MAXFD];          /* 0: not ours; 1 db, 2 journal, 3 wal, 4 shm */
static long g_count = 0;
static long g_crash_at = -1;                 /* -1: not read yet */
static int g_logfd = -1;
static int g_init = 0;
static int g_nosync = 0;

static int (*r_open)(const char*, int, ...);
static int (*r_open64)(const char*, int, ...);
static int (*r_openat)(int, const char*, int, ...);
static int (*r_openat64)(int, const char*, int, ...);
static ssize_t (*r_write)(int, const void*, size_t);
static ssize_t (*r_pwrite)(int, const void*, size_t, off_t);
static ssize_t (*r_pwrite64)(int, const void*, size_t, off64_t);
static int (*r_fsync)(int);
static int (*r_fdatasync)(int);
static int (*r_ftruncate)(int, off_t);
static int (*r_ftruncate64)(int, off64_t);
static int (*r_unlink)(const char*);
static int (*r_unlinkat)(int, const char*, int);
static int (*r_rename)(const char*, const char*);
static int (*r_close)(int);

static const char* kind_name(int k) { return k == 1 ? "db" : k == 2 ? "journal" : k == 3 ? "wal" : k == 4 ? "shm" : "?"; }

static int path_kind(const char* p) {
  if (!p) return 0;
  const char* b = strrchr(p, '/');
  b = b ? b + 1 : p;
  if (strncmp(b, "build.db", 8) != 0) return 0;
  b += 8;
  if (*b == 0) return 1;
  if (strcmp(b, "-journal") == 0) return 2;
  if (strcmp(b, "-wal") == 0) return 3;
  if (strcmp(b, "-shm") == 0) return 4;
  return 0;
}

static void init(void) {
  if (g_init) return;
  g_init = 1;
  r_open = dlsym(RTLD_NEXT, "open");
  r_open64 = dlsym(RTLD_NEXT, "open64");
  r_openat = dlsym(RTLD_NEXT, "openat");
  r_openat64 = dlsym(RTLD_NEXT, "openat64");
  r_write = dlsym(RTLD_NEXT, "write");
  r_pwrite = dlsym(RTLD_NEXT, "pwrite");
  r_pwrite64 = dlsym(RTLD_NEXT, "pwrite64");
  r_fsync = dlsym(RTLD_NEXT, "fsync");
  r_fdatasync = dlsym(RTLD_NEXT, "fdatasync");
  r_ftruncate = dlsym(RTLD_NEXT, "ftruncate");
  r_ftruncate64 = dlsym(RTLD_NEXT, "ftruncate64");
  r_unlink = dlsym(RTLD_NEXT, "unlink");
  r_unlinkat = dlsym(RTLD_NEXT, "unlinkat");
  r_rename = dlsym(RTLD_NEXT, "rename");
  r_close = dlsym(RTLD_NEXT, "close");
  const char* s = getenv("CRASH_AT");
  g_crash_at = s ? atol(s) : 0;
  const char* ns = getenv("CRASH_NOSYNC");
  g_nosync = ns && *ns == '1';
  const char* l = getenv("CRASH_LOG_FILE");
  if (l && *l) g_logfd = r_open(l, O_WRONLY | O_CREAT | O_TRUNC | O_CLOEXEC, 0644);
}

/* one counted call is about to happen */
static void hit(const char* what, int kind, long bytes, long off) {
  long n = __sync_add_and_fetch(&g_count, 1);
  if (g_logfd >= 0) {
    char buf[128]; int len;
    if (bytes >= 0 && off >= 0) len = snprintf(buf, sizeof buf, "%ld %s %s %ld %ld\n", n, what, kind_name(kind), bytes, off);
    else if (bytes >= 0) len = snprintf(buf, sizeof buf, "%ld %s %s %ld -\n", n, what, kind_name(kind), bytes);
    else len = snprintf(buf, sizeof buf, "%ld %s %s - -\n", n, what, kind_name(kind));
    if (len > 0) { ssize_t r = r_write(g_logfd, buf, (size_t)len); (void)r; }
  }
  if (g_crash_at > 0 && n == g_crash_at) _exit(77);
}

static int fdk(int fd) { return (fd >= 0 && fd < MAXFD) ? g_kind[fd] : 0; }
static void track(int fd, int kind) { if (fd >= 0 && fd < MAXFD) g_kind[fd] = (unsigned char)kind; }

__attribute__((destructor)) static void fini(void) {
  init();
  const char* f = getenv("CRASH_COUNT_FILE");
  if (f && *f) {
    int fd = r_open(f, O_WRONLY | O_CREAT | O_TRUNC, 0644);
    if (fd >= 0) { char buf[32]; int len = snprintf(buf, sizeof buf, "%ld\n", g_count); ssize_t r = r_write(fd, buf, (size_t)len); (void)r; r_close(fd); }
  }
}

#define MODE_ARG mode_t mode = 0; if (flags & (O_CREAT | O_TMPFILE)) { va_list ap; va_start(ap, flags); mode = (mode_t)va_arg(ap, int); va_end(ap); }

int open(const char* path, int flags, ...) {
  MODE_ARG; init();
  int k = path_kind(path);
  if (k) hit("open", k, -1, -1);
  int fd = r_open(path, flags, mode);
  if (k) track(fd, k); else track(fd, 0);
  return fd;
}
int open64(const char* path, int flags, ...) {
  MODE_ARG; init();
  int k = path_kind(path);
  if (k) hit("open", k, -1, -1);
  int fd = r_open64(path, flags, mode);
  if (k) track(fd, k); else track(fd, 0);
  return fd;
}
int openat(int dirfd, const char* path, int flags, ...) {
  MODE_ARG; init();
  int k = path_kind(path);
  if (k) hit("openat", k, -1, -1);
  int fd = r_openat(dirfd, path, flags, mode);
  if (k) track(fd, k); else track(fd, 0);
  return fd;
}
int openat64(int dirfd, const char* path, int flags, ...) {
  MODE_ARG; init();
  int k = path_kind(path);
  if (k) hit("openat", k, -1, -1);
  int fd = r_openat64(dirfd, path, flags, mode);
  if (k) track(fd, k); else track(fd, 0);
  return fd;
}
int close(int fd) {
  init();
  track(fd, 0);
  return r_close(fd);
}
ssize_t write(int fd, const void* buf, size_t n) {
  init();
  int k = fdk(fd);
  if (k) hit("write", k, (long)n, -1);
  return r_write(fd, buf, n);
}
ssize_t pwrite(int fd, const void* buf, size_t n, off_t off) {
  init();
  int k = fdk(fd);
  if (k) hit("pwrite", k, (long)n, (long)off);
  return r_pwrite(fd, buf, n, off);
}
ssize_t pwrite64(int fd, const void* buf, size_t n, off64_t off) {
  init();
  int k = fdk(fd);
  if (k) hit("pwrite", k, (long)n, (long)off);
  return r_pwrite64(fd, buf, n, off);
}
int fsync(int fd) {
  init();
  int k = fdk(fd);
  if (k) { hit("fsync", k, -1, -1); if (g_nosync) return 0; }
  return r_fsync(fd);
}
int fdatasync(int fd) {
  init();
  int k = fdk(fd);
  if (k) { hit("fdatasync", k, -1, -1); if (g_nosync) return 0; }
  return r_fdatasync(fd);
}
int ftruncate(int fd, off_t len) {
  init();
  int k = fdk(fd);
  if (k) hit("ftruncate", k, (long)len, -1);
  return r_ftruncate(fd, len);
}
int ftruncate64(int fd, off64_t len) {
  init();
  int k = fdk(fd);
  if (k) hit("ftruncate", k, (long)len, -1);
  return r_ftruncate64(fd, len);
}
int unlink(const char* path) {
  init();
  int k = path_kind(path);
  if (k) hit("unlink", k, -1, -1);
  return r_unlink(path);
}
int unlinkat(int dirfd, const char* path, int flags) {
  init();
  int k = path_kind(path);
  if (k) hit("unlinkat", k, -1, -1);
  return r_unlinkat(dirfd, path, flags);
}
int rename(const char* from, const char* to) {
  init();
  int k = path_kind(from);
  if (!k) k = path_kind(to);
  if (k) hit("rename", k, -1, -1);
  return r_rename(from, to);
}
