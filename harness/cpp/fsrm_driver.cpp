// File-system removal driver (C14, file-system side): builds a tree with real system calls inside a sandbox
// directory, calls llbuild::basic::createLocalFileSystem()->remove(path) on it, and dumps the tree with lstat.
// THIS DRIVER DELETES RECURSIVELY.  Every command runs in a forked child that chroot()s into the sandbox
// directory first (mode "chroot", needs root), so nothing outside the sandbox can be reached whatever the
// links and ".." in the input say.  Without root (mode "prefix") every path is prefixed with the sandbox
// directory, checked before each system call, and inputs containing ".." are refused.
// The sandbox directory must be <anything>/_work/tmp/c14fs/<name>.
#include "common.h"
#include <memory>
#include <algorithm>
#include <cerrno>
#include <cstdlib>
#include <sys/stat.h>
#include <sys/types.h>
#include <sys/wait.h>
#include <unistd.h>
#include <dirent.h>
#include <fcntl.h>
#include "llbuild/Basic/FileSystem.h"

static const char* MARK = "/_work/tmp/c14fs/";
static bool g_chroot = false;
static std::string g_base;   // "" in chroot mode (after chroot), the sandbox directory in prefix mode
static std::string g_dir;    // the sandbox directory (for the prefix check)

static void die(const std::string& why) { fprintf(stderr, "fsrm_driver: %s\n", why.c_str()); _exit(3); }

static bool sandbox_ok(const std::string& d) {
  if (d.empty() || d[0] != '/') return false;
  if (d.find("..") != std::string::npos) return false;
  size_t p = d.find(MARK);
  if (p == std::string::npos) return false;
  std::string name = d.substr(p + strlen(MARK));
  if (name.empty() || name.find('/') != std::string::npos) return false;
  return true;
}

// the real path of a sandbox-relative path; checked before any system call is made on it
static std::string P(const std::string& rel) {
  std::string r = g_base + "/" + rel;
  if (!g_chroot) {
    if (r.compare(0, g_dir.size() + 1, g_dir + "/") != 0) die("path outside the sandbox: " + r);
    if (("/" + rel + "/").find("/../") != std::string::npos) die("'..' in prefix mode: " + rel);
  }
  return r;
}

static const char* errno_name(int e) {
  switch (e) {
  case ENOENT: return "ENOENT"; case ENOTDIR: return "ENOTDIR"; case EISDIR: return "EISDIR"; case ELOOP: return "ELOOP";
  case ENOTEMPTY: return "ENOTEMPTY"; case EINVAL: return "EINVAL"; case EBUSY: return "EBUSY"; case EPERM: return "EPERM";
  case EACCES: return "EACCES"; case EEXIST: return "EEXIST"; case 0: return "E0";
  }
  static char buf[32]; snprintf(buf, sizeof buf, "E%d", e); return buf;
}

// remove everything beneath rel (never following a link); used only to reset the sandbox
static void wipe(const std::string& rel) {
  std::string p = P(rel);
  DIR* d = opendir(p.c_str());
  if (!d) return;
  SV names;
  while (struct dirent* e = readdir(d)) {
    std::string n = e->d_name;
    if (n != "." && n != "..") names.push_back(n);
  }
  closedir(d);
  for (auto& n : names) {
    std::string c = rel.empty() ? n : rel + "/" + n;
    struct stat st;
    if (lstat(P(c).c_str(), &st) != 0) continue;
    if (S_ISDIR(st.st_mode)) { wipe(c); rmdir(P(c).c_str()); }
    else unlink(P(c).c_str());
  }
}

static std::string do_mk(const std::string& tree) {
  wipe("");
  if (tree == ".") return "ok";
  for (auto& line : split(tree, ',')) {
    SV f = split(line, ':');
    if (f.size() < 2) return "ERR line";
    std::string rel = unhex(f[1]);
    if (f[0] == "d") {
      if (mkdir(P(rel).c_str(), 0755) != 0) return std::string("ERR mkdir ") + errno_name(errno);
    } else if (f[0] == "f" && f.size() == 3) {
      int fd = open(P(rel).c_str(), O_WRONLY | O_CREAT | O_EXCL, 0644);
      if (fd < 0) return std::string("ERR open ") + errno_name(errno);
      if (write(fd, f[2].data(), f[2].size()) != (ssize_t)f[2].size()) { close(fd); return "ERR write"; }
      close(fd);
    } else if (f[0] == "l" && f.size() == 3) {
      std::string tg = unhex(f[2]);
      if (!g_chroot) {
        if (("/" + tg + "/").find("/../") != std::string::npos) return "ERR dotdot";
        if (!tg.empty() && tg[0] == '/') tg = g_dir + tg;      // absolute targets are sandbox-absolute
      }
      if (symlink(tg.c_str(), P(rel).c_str()) != 0) return std::string("ERR symlink ") + errno_name(errno);
    } else return "ERR line";
  }
  return "ok";
}

// sorted = canonical dump; unsorted = the order readdir hands the names out (what _remove_all_r iterates in)
static void dump_r(const std::string& rel, SV& out, bool sorted) {
  DIR* d = opendir(P(rel).c_str());
  if (!d) return;
  SV names;
  while (struct dirent* e = readdir(d)) {
    std::string n = e->d_name;
    if (n != "." && n != "..") names.push_back(n);
  }
  closedir(d);
  if (sorted) std::sort(names.begin(), names.end());
  for (auto& n : names) {
    std::string c = rel.empty() ? n : rel + "/" + n;
    struct stat st;
    if (lstat(P(c).c_str(), &st) != 0) { out.push_back("?:" + hex(c)); continue; }
    if (S_ISDIR(st.st_mode)) { out.push_back("d:" + hex(c)); dump_r(c, out, sorted); }
    else if (S_ISLNK(st.st_mode)) {
      char buf[4096]; ssize_t k = readlink(P(c).c_str(), buf, sizeof buf);
      std::string tg(buf, k > 0 ? k : 0);
      if (!g_chroot && tg.compare(0, g_dir.size(), g_dir) == 0 && (tg.size() == g_dir.size() || tg[g_dir.size()] == '/'))
        tg = tg.size() == g_dir.size() ? "/" : tg.substr(g_dir.size());
      out.push_back("l:" + hex(c) + ":" + hex(tg));
    } else if (S_ISREG(st.st_mode)) {
      std::string content; FILE* f = fopen(P(c).c_str(), "rb");
      if (f) { char buf[256]; size_t k; while ((k = fread(buf, 1, sizeof buf, f)) > 0) content.append(buf, k); fclose(f); }
      out.push_back("f:" + hex(c) + ":" + (content.empty() ? "0" : content));
    } else out.push_back("?:" + hex(c));
  }
}

static std::string do_dump(bool sorted) {
  SV out; dump_r("", out, sorted);
  if (out.empty()) return ".";
  std::string r; for (size_t i = 0; i < out.size(); i++) { if (i) r += ","; r += out[i]; }
  return r;
}

static std::string do_rm(const std::string& path) {
  std::string real;
  if (g_chroot) real = path;                        // the working directory is the sandbox root
  else {
    if (path.find_first_not_of('/') == std::string::npos) return "ERR root";
    if (("/" + path + "/").find("/../") != std::string::npos) return "ERR dotdot";
    real = g_dir + "/" + path;
    if (real.compare(0, g_dir.size() + 1, g_dir + "/") != 0) die("path outside the sandbox: " + real);
  }
  auto fs = llbuild::basic::createLocalFileSystem();
  errno = 0;
  bool ok = fs->remove(real);
  int e = errno;
  return ok ? std::string("ok") : std::string("err:") + errno_name(e);
}

static std::string in_sandbox(const std::string& dir, const std::string& cmd, const std::string& arg) {
  if (!sandbox_ok(dir)) return "ERR sandbox directory not accepted";
  int fds[2];
  if (pipe(fds) != 0) return "ERR pipe";
  fflush(stdout);
  pid_t pid = fork();
  if (pid < 0) return "ERR fork";
  if (pid == 0) {
    close(fds[0]);
    g_dir = dir;
    if (g_chroot) {
      if (chroot(dir.c_str()) != 0 || chdir("/") != 0) die("chroot failed");
      g_base = "";
    } else {
      if (chdir(dir.c_str()) != 0) die("chdir failed");
      g_base = dir;
    }
    std::string r = cmd == "mk" ? do_mk(arg) : cmd == "rm" ? do_rm(arg) : cmd == "dump" ? do_dump(true) : cmd == "dumpo" ? do_dump(false)
                  : cmd == "clean" ? (wipe(""), std::string("ok")) : std::string("ERR cmd");
    size_t off = 0;
    while (off < r.size()) { ssize_t k = write(fds[1], r.data() + off, r.size() - off); if (k <= 0) break; off += k; }
    _exit(0);
  }
  close(fds[1]);
  std::string r; char buf[4096]; ssize_t k;
  while ((k = read(fds[0], buf, sizeof buf)) > 0) r.append(buf, k);
  close(fds[0]);
  int st = 0; waitpid(pid, &st, 0);
  if (!WIFEXITED(st) || WEXITSTATUS(st) != 0) return "ERR child status " + std::to_string(st);
  return r;
}

int main() {
  g_chroot = (geteuid() == 0) && !getenv("FSRM_NO_CHROOT");
  if (g_chroot) {   // probe: is chroot permitted at all?
    pid_t pid = fork();
    if (pid == 0) _exit(chroot("/") == 0 ? 0 : 1);
    int st = 0; waitpid(pid, &st, 0);
    g_chroot = WIFEXITED(st) && WEXITSTATUS(st) == 0;
  }
  std::string line;
  while (std::getline(std::cin, line)) {
    SV a = split(line, ' ');
    std::string r;
    if (a[0] == "mode") r = g_chroot ? "chroot" : "prefix";
    else if (a[0] == "mk" && a.size() == 3) { if (sandbox_ok(a[1])) mkdir(a[1].c_str(), 0755); r = in_sandbox(a[1], "mk", a[2]); }
    else if (a[0] == "rm" && a.size() == 3) r = in_sandbox(a[1], "rm", unhex(a[2]));
    else if ((a[0] == "dump" || a[0] == "dumpo") && a.size() == 2) r = in_sandbox(a[1], a[0], "");
    else if (a[0] == "clean" && a.size() == 2) { r = in_sandbox(a[1], "clean", ""); if (r == "ok") rmdir(a[1].c_str()); }
    else r = "ERR args";
    printf("%s\n", r.c_str()); fflush(stdout);
  }
  return 0;
}
