// C++-interface twin of capi_driver.c for the scenarios engine_driver.cpp cannot express: rules whose VALUE has an arbitrary
// shape (zero length, one byte, all NUL, 4 KiB) and whose isResultValid answer is scripted.  Same scenario language and
// the same output lines as capi_driver.c in `hexvalues 1` mode (values are printed as hex, "EMPTY" for the empty one):
//   name, rule <k> obs= req= follow= br=<slot>:<a,b>:<c,d> disc=, set, db, schema, restart, build <k>      (synchronous completion only)
//   shape <k> <0 default 16 bytes | 1 empty | 2 one byte | 3 all NUL, 1..20 bytes | 4 4096 bytes>
//   validret <k> <0|1>      isResultValid of rule k answers (stamp still current) && <b>;   force <k> <0|1>: complete(value, forceChange = <b>)
//   hexvalues 1             (ignored here: always on)
// Lines: build, restart, valid <k> <answer> <value>, create, start, provide <k> <id> <key> <value>, avail, complete <k> <value>,
// status <k> <kind>, cycle, error, result <value>, dbsnap <n> (copy of the database in <workdir>/snap-<n>.db).
// Only lines a C client can observe are printed (no need / prior / epoch / deps).
#include "common.h"
#include "llbuild/Core/BuildEngine.h"
#include "llbuild/Core/BuildDB.h"
#include "llbuild/Basic/ExecutionQueue.h"
#include <map>
#include <fstream>
#include <unistd.h>
#include <cstdarg>
using namespace llbuild;
using namespace llbuild::core;

struct RuleDef { bool obs = true; std::vector<int> req, follow, disc, brA, brB; int brslot = -1; };
static std::map<int, RuleDef> g_pending, g_defs;
static std::map<int, uint64_t> g_env;
static std::map<int, int> g_shape, g_validret, g_force;
static std::map<int, std::string> g_names;
static std::map<std::string, int> g_ids;
static bool g_in_build = false;

static std::string kname(int k) { auto it = g_names.find(k); return it != g_names.end() ? it->second : "k" + std::to_string(k); }
static int kid(const std::string& s) {
  auto it = g_ids.find(s); if (it != g_ids.end()) return it->second;
  if (s.size() > 1 && s[0] == 'k') return atoi(s.c_str() + 1);
  return -1;
}
static const uint64_t M = 1000003ULL;
static uint64_t mix(uint64_t h, uint64_t x) { h ^= x + 0x9e3779b97f4a7c15ULL + (h << 6) + (h >> 2); return h % M; }
struct Val { uint64_t p = 0, s = 0; };
static ValueType enc(uint64_t p, uint64_t s) { ValueType r(16); for (int i = 0; i < 8; i++) { r[i] = (p >> (8 * i)) & 0xff; r[8 + i] = (s >> (8 * i)) & 0xff; } return r; }
// how a consumer reads an input value of any shape: 16 bytes as (payload, stamp), anything else as (length, hash of the bytes)
static Val dec(const ValueType& v) {
  Val r;
  if (v.size() == 16) { for (int i = 0; i < 8; i++) { r.p |= uint64_t(v[i]) << (8 * i); r.s |= uint64_t(v[8 + i]) << (8 * i); } return r; }
  r.p = v.size(); for (uint8_t b : v) r.s = mix(r.s, b);
  return r;
}
static ValueType shaped(int shape, uint64_t h, uint64_t obs) {
  switch (shape) {
  case 1: return ValueType();
  case 2: return ValueType(1, (h % 3 == 0) ? 0 : uint8_t(h & 0xff));
  case 3: return ValueType(1 + h % 20, 0);
  case 4: { ValueType e = enc(h, obs), r; r.reserve(4096); for (int i = 0; i < 256; i++) r.insert(r.end(), e.begin(), e.end()); return r; }
  default: return enc(h, obs);
  }
}
static std::string xs(const ValueType& v) { return v.empty() ? "EMPTY" : hex(v.data(), v.size()); }
static void ev(const char* fmt, ...) {
  if (!g_in_build) fputs("LATE-CALLBACK ", stdout);
  va_list ap; va_start(ap, fmt); vprintf(fmt, ap); va_end(ap); fputc('\n', stdout);
}

struct DTask : Task {
  int k; RuleDef d; std::vector<Val> slots; std::vector<int> slotkey; bool branched = false;
  void req(TaskInterface ti, int r) { size_t id = slots.size(); slots.push_back(Val()); slotkey.push_back(r); ti.request(kname(r), id); }
  DTask(int k) : k(k), d(g_defs[k]) {}
  void start(TaskInterface ti) override {
    ev("start %d", k);
    for (int r : d.req) req(ti, r);
    for (int r : d.follow) ti.mustFollow(kname(r));
  }
  void provideValue(TaskInterface ti, uintptr_t id, const KeyType& key, const ValueType& v) override {
    ev("provide %d %lu %d %s", k, (unsigned long)id, kid(key.str()), xs(v).c_str());
    if (id < slots.size()) slots[id] = dec(v);
    if (!branched && d.brslot >= 0 && (int)id == d.brslot && d.brslot < (int)d.req.size()) {
      branched = true;
      for (int r : (slots[id].p % 2 == 0 ? d.brA : d.brB)) req(ti, r);
    }
  }
  void inputsAvailable(TaskInterface ti) override {
    ev("avail %d", k);
    uint64_t obs = d.obs ? g_env[k] : 0;
    uint64_t h = (uint64_t)k % M;
    for (auto& s : slots) { h = mix(h, s.p); h = mix(h, s.s); }
    for (int x : d.disc) h = mix(h, g_env[x] + 1);
    h = mix(h, obs);
    if (k % 3 == 0) h = h % 2;
    ValueType v = shaped(g_shape.count(k) ? g_shape[k] : 0, h, obs);
    for (int x : d.disc) ti.discoveredDependency(kname(x));
    ev("complete %d %s", k, xs(v).c_str());
    ti.complete(std::move(v), g_force.count(k) && g_force[k]);
  }
};
struct DRule : Rule {
  int k;
  DRule(const KeyType& key, int k) : Rule(key), k(k) {}
  Task* createTask(BuildEngine&) override { ev("create %d", k); return new DTask(k); }
  bool isResultValid(BuildEngine&, const ValueType& v) override {
    bool r = true;
    int shape = g_shape.count(k) ? g_shape[k] : 0;
    if (g_defs[k].obs && shape == 0) { r = v.size() == 16 && dec(v).s == g_env[k]; }
    if (g_validret.count(k) && !g_validret[k]) r = false;
    ev("valid %d %d %s", k, r ? 1 : 0, xs(v).c_str());
    return r;
  }
  void updateStatus(BuildEngine&, StatusKind s) override { ev("status %d %d", k, (int)s); }
};
struct Del : BuildEngineDelegate, basic::ExecutionQueueDelegate {
  std::unique_ptr<Rule> lookupRule(const KeyType& key) override { return std::unique_ptr<Rule>(new DRule(key, kid(key.str()))); }
  void cycleDetected(const std::vector<Rule*>& items) override {
    std::string s = "cycle"; for (auto* r : items) s += " " + std::to_string(kid(r->key.str())); ev("%s", s.c_str());
  }
  void error(const llvm::Twine& m) override { std::string t = m.str(); for (auto& c : t) if (c == '\n') c = ' '; ev("error %s", t.c_str()); }
  void processStarted(basic::ProcessContext*, basic::ProcessHandle, llbuild_pid_t) override {}
  void processHadError(basic::ProcessContext*, basic::ProcessHandle, const llvm::Twine&) override {}
  void processHadOutput(basic::ProcessContext*, basic::ProcessHandle, llvm::StringRef) override {}
  void processFinished(basic::ProcessContext*, basic::ProcessHandle, const basic::ProcessResult&) override {}
  void queueJobStarted(basic::JobDescriptor*) override {}
  void queueJobFinished(basic::JobDescriptor*) override {}
  std::unique_ptr<basic::ExecutionQueue> createExecutionQueue() override { return createSerialQueue(*this, nullptr); }
};
static std::vector<int> ints(const std::string& s) { std::vector<int> r; if (s.empty()) return r; for (auto& x : split(s, ',')) if (!x.empty()) r.push_back(atoi(x.c_str())); return r; }
static void snapshot(const std::string& dbpath, const std::string& wd, int n) {
  std::ifstream in(dbpath, std::ios::binary); if (!in) { printf("dberror open\n"); return; }
  std::ofstream out(wd + "/snap-" + std::to_string(n) + ".db", std::ios::binary); out << in.rdbuf();
  printf("dbsnap %d\n", n);
}

int main(int argc, char** argv) {
  std::ifstream in(argv[1]); std::string wd = argc > 2 ? argv[2] : "."; std::string dbpath = wd + "/build.db";
  bool usedb = false, started = false; uint32_t schema = 1; int nbuild = 0;
  Del* del = nullptr; BuildEngine* e = nullptr;
  auto newengine = [&](bool attach) {
    if (e) { delete e; delete del; }
    g_defs = g_pending; del = new Del; e = new BuildEngine(*del);
    if (attach) {
      std::string err; auto db = createSQLiteBuildDB(dbpath, schema, /*recreateUnmatchedVersion=*/true, &err);
      if (!db) { printf("attach-error %s\n", err.c_str()); return; }
      if (!e->attachDB(std::move(db), &err)) printf("attach-error %s\n", err.c_str());
    }
  };
  std::string line;
  while (std::getline(in, line)) {
    if (line.empty() || line[0] == '#') continue;
    SV t = split(line, ' ');
    if (t[0] == "name") { g_names[atoi(t[1].c_str())] = unhex(t[2]); g_ids[unhex(t[2])] = atoi(t[1].c_str()); }
    else if (t[0] == "rule") {
      RuleDef d; int k = atoi(t[1].c_str());
      for (size_t i = 2; i < t.size(); i++) {
        auto eq = t[i].find('='); std::string a = t[i].substr(0, eq), b = eq == std::string::npos ? "" : t[i].substr(eq + 1);
        if (a == "obs") d.obs = b == "1"; else if (a == "req") d.req = ints(b); else if (a == "follow") d.follow = ints(b);
        else if (a == "disc") d.disc = ints(b);
        else if (a == "br") { SV p = split(b, ':'); d.brslot = atoi(p[0].c_str()); d.brA = ints(p.size() > 1 ? p[1] : ""); d.brB = ints(p.size() > 2 ? p[2] : ""); }
        else if (a == "sig") { if (b != "0") printf("UNSUPPORTED sig\n"); }
        else printf("UNSUPPORTED %s\n", a.c_str());
      }
      g_pending[k] = d;
    }
    else if (t[0] == "set") g_env[atoi(t[1].c_str())] = strtoull(t[2].c_str(), 0, 10);
    else if (t[0] == "shape") g_shape[atoi(t[1].c_str())] = atoi(t[2].c_str());
    else if (t[0] == "validret") g_validret[atoi(t[1].c_str())] = atoi(t[2].c_str());
    else if (t[0] == "force") g_force[atoi(t[1].c_str())] = atoi(t[2].c_str());
    else if (t[0] == "hexvalues" || t[0] == "idbase" || t[0] == "ids") {}  // idbase / ids: the C driver chooses other input ids and prints the slot they stand for
    else if (t[0] == "db") { usedb = t[1] != "0"; if (t[1] == "1" && !started) unlink(dbpath.c_str()); }
    else if (t[0] == "schema") schema = (uint32_t)strtoul(t[1].c_str(), 0, 10);
    else if (t[0] == "restart") { newengine(usedb); started = true; printf("restart\n"); }
    else if (t[0] == "build") {
      if (!started) { newengine(usedb); started = true; }
      printf("build %d %s\n", ++nbuild, t[1].c_str());
      e->resetForBuild();
      g_in_build = true;
      auto& v = e->build(kname(atoi(t[1].c_str())));
      std::string res = xs(v);
      g_in_build = false;
      printf("result %s\n", res.c_str());
      if (usedb) snapshot(dbpath, wd, nbuild);
      fflush(stdout);
    }
    else printf("UNSUPPORTED %s\n", t[0].c_str());
  }
  if (e) { delete e; delete del; }
  return 0;
}
