#!/bin/bash
# MANIFEST.setup_cmd: build the framework from files on disk only (offline).
set -e
cd "$(dirname "$0")/.."
mkdir -p _work evidence replays coq/extracted
python3 -c 'import sys; sys.path.insert(0, "harness/py"); import vlib; vlib.coq_setup_makefile()'
( cd coq && timeout 3000 make -k -j16 > ../_work/coq-setup.log 2>&1 ) || { tail -40 _work/coq-setup.log; echo "setup: Coq build had failures (checks will report them)"; }
python3 - <<'PY'
import sys; sys.path.insert(0, "harness/py")
import vlib
[vlib.build_model(a) for a in sorted(set(f[8:-2] for f in __import__("os").listdir("coq") if f.startswith("Extract_") and f.endswith(".v")))]
vlib.build_repo("hooks")
import os
names = sorted(f.rsplit(".",1)[0] for f in os.listdir("harness/cpp") if (f.endswith(".cpp") or f.endswith(".c")) and not f.rsplit(".",1)[0].endswith("_shim"))
vlib.build_drivers(names, "hooks")
print("setup ok:", names)
PY
