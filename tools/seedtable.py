#!/usr/bin/env python3
# Regenerates the seeded-changes table of DESIGN.md section 10.5 from seeded/*/meta.json and seeded/RESULTS.txt (last result per seed x check wins).
import json, os, re, glob
R = os.path.dirname(os.path.dirname(os.path.abspath(__file__)))
res = {}
for l in open(os.path.join(R, "seeded", "RESULTS.txt")):
    m = re.match(r"(C\d+-\d+) on (C\d+): (DETECTED|MISSED)(.*)", l)
    if m:
        s, c, v, rest = m.groups()
        key = re.search(r"replays/C\d+_([A-Za-z0-9_.-]+?)_\d+\.json", rest)
        allk = re.search(r"ALLKEYS=(\S*)", rest)
        keys = [k for k in (allk.group(1).split(",") if allk else []) if k]
        if keys:
            withinput = [k for k in keys if not k.endswith("(no-input)")]
            nf = not withinput
            k0 = (withinput or keys)[0].replace("(no-input)", "")
            res[(s, c)] = (v, k0 + (" +%d more" % (len(keys) - 1) if len(keys) > 1 else ""), nf)
        else:
            nf = "no-failing-input-found" in rest
            res[(s, c)] = (v, key.group(1) if key else "", nf)
rows = ["| Seed | What it changes (needs to manifest) | Check: verdict (finding key) |", "|---|---|---|"]
for d in sorted(glob.glob(os.path.join(R, "seeded", "C*-*"))):
    s = os.path.basename(d)
    try:
        meta = json.load(open(os.path.join(d, "meta.json")))
    except Exception:
        meta = {}
    summ = (meta.get("summary") or "").replace("\n", " ").replace("|", "/")
    summ = summ[:230] + ("..." if len(summ) > 230 else "")
    vs = []
    for (ss, c), (v, key, nf) in sorted(res.items()):
        if ss == s:
            vs.append("%s: %s%s" % (c, "detected (`%s`%s)" % (key, ", no failing input" if nf else "") if v == "DETECTED" else "MISSED", ""))
    rows.append("| %s | %s | %s |" % (s, summ, "; ".join(vs) or "not yet run"))
p = os.path.join(R, "DESIGN.md")
t = open(p).read()
a, b = t.index("<!-- SEEDTABLE-BEGIN -->") + len("<!-- SEEDTABLE-BEGIN -->"), t.index("<!-- SEEDTABLE-END -->")
open(p, "w").write(t[:a] + "\n" + "\n".join(rows) + "\n" + t[b:])
print(len(rows) - 2, "seeds")
