#!/bin/bash
# debugging aid: show the goal just before line N of a Coq file (relative to coq/): tools/coqgoal.sh Codec/X.v N
cd /verif/coq && mkdir -p /verif/_work/dbg && head -n $(($2-1)) "$1" > /verif/_work/dbg/D.v && echo "Show. Abort." >> /verif/_work/dbg/D.v && coqc -Q . LLB /verif/_work/dbg/D.v 2>&1 | tail -${3:-40}
