#!/bin/bash
# tools/seedtest.sh <patch.diff> <Cxx> [more Cxx...] : apply a seeded change to /repo, run the checks, undo it.
# Prints DETECTED / MISSED per check.  Never leaves /repo modified.
P="$1"; shift
cd /repo || exit 2
if ! git diff --quiet; then echo "repo dirty; refusing"; exit 2; fi
git apply "$P" || { echo "patch does not apply"; exit 2; }
trap 'git -C /repo checkout -- . ' EXIT
for id in "$@"; do
  out=$(cd /verif && timeout 3000 tools/check $id --tier ${TIER:-quick} 2>&1); rc=$?
  if [ $rc -eq 1 ] && echo "$out" | grep -q "^VIOLATION property=$id"; then echo "DETECTED $id: $(echo "$out" | grep -A1 '^VIOLATION' | head -4 | tr '\n' ' ')"; else echo "MISSED $id (rc=$rc): $(echo "$out" | tail -2 | tr '\n' ' ')"; fi
done
