#!/bin/bash
# Runs the repository's pinned unit-test suite with the hook guard OFF (plain /repo/_build).
# Prints one line per gtest binary and a total; exit 0 iff every test passed.
set -u
B=/repo/_build
cmake --build "$B" > /tmp/verif_baseline_build.log 2>&1 || { tail -30 /tmp/verif_baseline_build.log; echo "BUILD FAILED"; exit 2; }
rc=0; total=0
for t in BasicTests BuildSystemTests CAPITests CASTests CoreTests EvoTests NinjaTests; do
  out=$(cd "$B" && timeout 900 ./bin/$t 2>&1); r=$?
  p=$(echo "$out" | grep -c '^\[       OK \]')
  f=$(echo "$out" | grep -c '^\[  FAILED  \].*[^:]$' )
  echo "$out" | grep -E '^\[ +(OK|FAILED) +\]' | grep -v ' tests\?' 
  echo "$t: rc=$r ok=$p"
  total=$((total+p))
  if [ $r -ne 0 ]; then rc=1; echo "$out" | grep -E 'FAILED|Failure' | head -20; fi
done
echo "TOTAL passed=$total (baseline 83)"
[ $total -ge 83 ] || rc=1
exit $rc
