#!/bin/bash
# tools/seedsetup.sh <name> : scratch worktree of /repo HEAD at /tmp/wt/<name> with its own _build (same flags as /repo/_build), for a seeding sub-agent.
set -e
n=$1; WT=/tmp/wt/$n
mkdir -p /tmp/wt
[ -d $WT ] && { git -C /repo worktree remove --force $WT 2>/dev/null || rm -rf $WT; }
git -C /repo worktree prune
git -C /repo worktree add --detach $WT HEAD > /dev/null
cmake -G Ninja -S $WT -B $WT/_build -DCMAKE_BUILD_TYPE=RelWithDebInfo -DCMAKE_CXX_COMPILER=/usr/bin/clang++-16 -DCMAKE_C_COMPILER=/usr/bin/clang-16 \
  -DCMAKE_CXX_FLAGS=-Wno-error -DCMAKE_C_FLAGS=-Wno-error -DLLBUILD_SUPPORT_BINDINGS= > /tmp/wt/$n.cfg.log 2>&1
cmake --build $WT/_build > /tmp/wt/$n.build.log 2>&1
mkdir -p /tmp/wt/${n}_out
echo "ready: $WT (out: /tmp/wt/${n}_out)"
