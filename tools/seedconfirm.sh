#!/bin/bash
# tools/seedconfirm.sh <Cxx> <k> : confirm a seeded change delivered in /tmp/wt/<Cxx>_out/<k> in the scratch worktree /tmp/wt/<Cxx>:
# clean tree: suite passes, demo passes; changed tree: compiles, suite passes, demo fails.  Stores it under /verif/seeded/<Cxx>-<k>/.
id=$1; k=$2; WT=/tmp/wt/$id; D=/tmp/wt/${id}_out/$k; T=${3:-$id-$k}    # optional third argument: name under /verif/seeded
cd $WT || exit 2
git checkout -q -- . ; git checkout -q --detach $(git -C /repo rev-parse HEAD)
suite() { local ok=0; for t in BasicTests BuildSystemTests CAPITests CASTests CoreTests EvoTests NinjaTests; do n=$(cd $WT/_build && timeout 900 ./bin/$t 2>&1 | grep -c '^\[       OK \]'); ok=$((ok+n)); done; echo $ok; }
cmake --build _build > /tmp/wt/$id.build.log 2>&1 || { echo "clean build failed"; exit 2; }
( cd $D && timeout 600 bash demo.sh $WT > $D/demo.clean.log 2>&1 ); c=$?
git apply $D/patch.diff || { echo "patch does not apply"; exit 2; }
cmake --build _build > /tmp/wt/$id.build.log 2>&1 || { echo "changed build failed"; git checkout -q -- .; exit 2; }
s=$(suite)
( cd $D && timeout 600 bash demo.sh $WT > $D/demo.changed.log 2>&1 ); m=$?
git checkout -q -- . ; cmake --build _build > /dev/null 2>&1
echo "$id-$k: demo clean rc=$c, suite with change passed=$s/83, demo changed rc=$m"
if [ $c -eq 0 ] && [ $m -ne 0 ] && [ "$s" -ge 83 ]; then
  mkdir -p /verif/seeded/$T && cp -r $D/. /verif/seeded/$T/ && rm -f /verif/seeded/$T/demo /verif/seeded/$T/*.o
  echo "CONFIRMED -> /verif/seeded/$T"
else echo "NOT CONFIRMED"; fi
