#!/usr/bin/env python3
# Regenerates MANIFEST.json from the table below (keeps it schema-valid at all times).
import json, os, subprocess
ROOT = os.path.dirname(os.path.dirname(os.path.abspath(__file__)))
props = [json.loads(l) for l in open(os.path.join(ROOT, "properties.jsonl"))]
ids = [p["id"] for p in props]

# per claimed property: (technique, level text, level_note, design_ref)
CLAIMS = {
 "C14": ("Coq theorems over a transliterated model of pathIsPrefixedByPath and the deletion decision; model tied to the code by exhaustive differential execution over a path alphabet and by CLI histories",
         "Proved for all byte strings: soundness of the prefix test w.r.t. whole components, invariance under trailing separators on the root, completeness on canonical spellings, the exact deleted set, and the history dependence (induction over any list of runs). The model is hand-written; every run compares it with the rebuilt code on all pairs over {/,a,b} up to length 5 and on random (expectedOutputs, roots) histories through `llbuild buildsystem build`, and judges the implementation against a component-prefix oracle.",
         "Trusted: Coq kernel (+vm_compute), the hand-written model (tied by correspondence only), leaf_driver.cpp, extraction via ExtrOcamlBasic, the Python comparator. POSIX separators only. FileSystem::remove itself is exercised, not modelled.",
         "DESIGN.md 4/C14"),
 "C15": ("Coq round-trip and injectivity theorems over transliterated models of BinaryCoding/StringList/FileInfo/BuildValue/BuildKey; tag tables probed exhaustively from the code into Gen_Codec.v and re-checked; differential execution model vs code on generated values/keys",
         "Proved for all values and keys meeting the stated well-formedness (64-bit fields, 1..2^32-1 outputs, NUL-free list items, names < 2^32 bytes): decode(encode x) = x, encode injective, first byte separates kinds, [] vs [\"\"] differ. Tag distinctness and the kind<->char bijection are proved over tables regenerated from the rebuilt code on every run. Every run compares model and code byte for byte on thousands of generated values/keys built through every factory, checks copy/move/re-decode canonicity, round trip and injectivity on the implementation itself.",
         "Trusted: Coq kernel (+vm_compute), hand-written model (tied by correspondence only), leaf_driver.cpp, extraction, comparator. Little-endian host. Decoders are only fed encoder output (the C++ decoder does not bounds-check; outside the property).",
         "DESIGN.md 4/C15"),
 "C13": ("Coq theorems over a model of file observation (stat record, three file-system modes, FileInfo equality); model tied to the code by differential execution on a real directory through the real FileSystem wrappers, with Python's os.stat/hashlib as independent observer",
         "Proved for all file states with a non-zero mode: detection of existence/size/mtime (and device/inode in default mode) differences, equality of untouched observations, the missing record is never produced for an existing object, device-agnostic ignores device/inode, checksum-only equality <-> same existence, type class, size and content (digest idealised as theorem premises), timestamp changes invisible there. Every run drives sequences of real file mutations (in-place same-size edits, inode replacement, empty file at mtime 0.0, dir/symlink retyping, 64 KiB one-bit flips) through getFileInfo/getLinkInfo of the three wrappers and compares every pair of observations with the model and with the property oracle.",
         "Trusted: Coq kernel, hand-written model (tied by correspondence only), leaf_driver.cpp, Python observer, extraction. MD5 is idealised (premises of c13_checksum_mode). Unreadable files cannot be produced when running as root (branch modelled, not exercised).",
         "DESIGN.md 4/C13"),
}
CLAIMS["C09"] = ("Coq unique-decoding theorems over a transliterated token model of ExternalCommand/ShellCommand/BuildNode::getSignature (ideal hash as explicit premise); exact 64-bit tie: real loader signature == real llvm::hash_combine folded over the model's tokens; one-attribute pair oracle; CLI null-build and re-run histories",
 "Proved for all command definitions (unbounded lists, arbitrary bytes): the token sequence fed to the hash chain determines every signature-relevant part (name, inputs, outputs, flags, args, env, deps, deps-style, explicit signature) and nothing else; every list-boundary move, adjacent-argument merge/shift and single-attribute edit changes it; under the ideal-hash premise signatures differ iff relevant parts differ; the re-run decision (signature / output info / always-out-of-date / stored value kind) is characterised exactly; the pre-repair chain is refuted with witnesses. Every run: 1800+ generated definitions loaded by the real BuildFile loader must hash to exactly the fold of the real llvm::hash_combine over the model's tokens; 1300+ one-attribute pairs must differ; signatures recomputed in a second process must match; CLI histories check null builds across processes and re-runs after each kind of edit.",
 "Trusted: Coq kernel, hand-written token model (tied by exact 64-bit equality on generated definitions), sig_driver.cpp, extraction, comparator. llvm::hash_combine idealised as collision-free on compared token lists (explicit theorem premise). working-directory/control-enabled are not hashed by design (documented list).",
 "DESIGN.md 4/C09")
CLAIMS["C10"] = ("Coq theorems (finite case analysis lifted by induction over consumption chains of any length) over a transliterated model of getResultForOutput / provideValue skip logic / isResultValid of the build-system commands; model tied by an exhaustive probe of the real functions on real command instances (all tool x node kind x value kind x missing combinations) and by failure histories through the CLI and the real BuildSystemFrontend with cancelling and keep-going delegates",
 "Proved for every tool, node kind, flag combination and chain length: a failing producer value (failed, propagated failure, cancelled) makes every regular consumer skip without launching and pass the failure on; the skip flag is sticky over any input sequence; no non-successful stored value is ever valid (so the engine re-attempts it and everything downstream); the target task's report is characterised exactly; the three hops that launder a failure in the current code (phony virtual output, symlink must-follow inputs, delegate-skipped command) are excluded by name and refuted with witnesses (KNOWN findings). Every run: the real decision functions are probed exhaustively (~19k entries) against the model and an independent oracle; generated descriptions with any subset of failing commands (exit status, signal, missing file, blocked output) run serial and parallel, cancel-on-failure (CLI) and keep-going (driver): nothing downstream runs, failure reported, retried next build, converges to the clean build after repair.",
 "Trusted: Coq kernel, hand-written decision model (tied by exhaustive table + histories), bsys_driver.cpp, extraction, Python graph oracle. Engine property C02 (invalid value => re-run) is cited, not re-proved here. Node-rule validity lambdas are reachable only through histories. Known findings: launder-phony-virtual, launder-symlink-mustfollow, launder-delegate-skip (keep-going clients only).",
 "DESIGN.md 4/C10")
CLAIMS["C11"] = ("Coq round-trip, error-reporting and totality theorems over transliterated models of MakefileDepsParser, DependencyInfoParser and the ShellCommand glue that turns parser events into discovered-dependency keys; models tied by exhaustive/differential execution against the real parsers (normal and ASan/UBSan builds, exact-size unterminated buffers) and by CLI histories that touch discovered paths",
 "Proved for all targets and path lists meeting the exact well-formedness conditions (each shown necessary by a counter-example): the documented escaping round-trips byte for byte for every separator and line-end choice, interior and trailing colons included, for single and multiple rules; malformed files (missing colon, bad prerequisite) yield the error event at the stated position and fail the command; dependency-info files round-trip and each malformation yields exactly its error; relative words are resolved against the command's working directory for both styles (dependency-info after fix ba34c0a; old behaviour refuted). Every run: ~78k files (exhaustive over special bytes up to length 5, all truncations, mutations, random bytes, writer outputs) through model, normal and ASan parser with 0 disagreements tolerated; CLI histories over 3 deps styles x tricky spellings x modify/delete/create with the command re-running exactly when the path changed and malformed files failing the build.",
 "Trusted: Coq kernel, hand-written parser/glue models (tied by differential execution), parse_driver.cpp, extraction, comparator. The engine link (a discovered key is appended to the dependency list, so C01/C02 re-run the command) is exercised at the CLI, not proved here. Windows drive-letter branch not modelled.",
 "DESIGN.md 4/C11")
NOT_YET = "check not built yet (work proceeds in the order of DESIGN.md section 7); not claimed until a kernel-checked theorem tied to the code by a running correspondence exists"

commits = subprocess.run(["git", "-C", "/repo", "log", "--format=%h %s"], capture_output=True, text=True).stdout.splitlines()
hook_commits = [c.split()[0] for c in commits if "LLBUILD_VERIF" in c or c.split(" ", 1)[1].startswith("verif-hook")]

m = dict(version=1,
         setup_cmd="tools/setup.sh",
         hooks=dict(guard="LLBUILD_VERIF",
                    enable="checks configure /verif/_work/b-hooks with -DCMAKE_CXX_FLAGS='-Wno-error -DLLBUILD_VERIF' and rebuild it from /repo's working tree on every run",
                    baseline_off_cmd="tools/baseline.sh",
                    source_commits=hook_commits, add_only=True),
         engines=[dict(name="coq+correspondence", path="tools/check",
                       serves_properties=sorted(CLAIMS),
                       kind_free_text="Coq 8.16 development under coq/ (theorems in coq/Props), models extracted to OCaml and run against C++ drivers linked with libraries rebuilt from /repo")],
         checks=[], not_applicable=[],
         notes="Every check: rebuilds /repo (hooks on), rebuilds drivers, re-checks coq/Props/Properties_<id>.v (Print Assumptions parsed into the evidence), runs model and implementation on the same cases, applies the property's own oracle to the implementation. See DESIGN.md.")
for i in ids:
    if i in CLAIMS:
        tech, text, note, ref = CLAIMS[i]
        m["checks"].append(dict(property_id=i, quick_cmd="tools/check %s --tier quick" % i,
                                thorough_cmd="tools/check %s --tier thorough" % i,
                                evidence_file="evidence/%s.json" % i,
                                replay_cmd_template="tools/check %s --replay {path}" % i,
                                engine="coq+correspondence",
                                level_claimed=dict(category="proof", text=text, design_ref=ref),
                                level_note=note, technique=tech))
    else:
        m["not_applicable"].append(dict(property_id=i, reason=NOT_YET))
json.dump(m, open(os.path.join(ROOT, "MANIFEST.json"), "w"), indent=1)
print("claimed:", sorted(CLAIMS))
