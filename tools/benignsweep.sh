#!/bin/bash
# tools/benignsweep.sh [names under seeded/benign ...] : runs EVERY quick check against property-preserving changes (seeded/benign/<name>/patch.diff),
# in a private copy of /verif and a private worktree of /repo HEAD (SEED_VERIF / SEED_REPO). Expected: every check exits 0 with no VIOLATION line.
# Results -> seeded/BENIGN_RESULTS.txt  ("<name> on <check>: QUIET" | "<name> on <check>: ALARM ...")
set -u
SR=${SEED_REPO:-/tmp/wt/benignrepo}; VS=${SEED_VERIF:-/tmp/verif_benign}
mkdir -p /tmp/wt
if [ ! -d $SR ]; then git -C /repo worktree prune; git -C /repo worktree add --detach $SR HEAD > /dev/null; fi
git -C $SR checkout -q -- . ; git -C $SR checkout -q --detach $(git -C /repo rev-parse ${SEED_BASE:-HEAD})    # SEED_BASE: an older commit for patches written against it
rsync -a --delete --exclude _work --exclude .git --exclude replays /verif/ $VS/
mkdir -p $VS/_work
names="$@"; [ -z "$names" ] && names=$(ls /verif/seeded/benign)
for s in $names; do
  P=/verif/seeded/benign/$s/patch.diff
  git -C $SR apply $P || { echo "$s: patch does not apply" | tee -a /verif/seeded/BENIGN_RESULTS.txt; continue; }
  for c in ${CHECKS:-C01 C02 C03 C04 C05 C06 C07 C08 C09 C10 C11 C12 C13 C14 C15 C16 C17 C18 C19 C20}; do
    out=$(cd $VS && VERIF_REPO=$SR timeout 3000 tools/check $c --tier ${TIER:-quick} 2>&1); rc=$?
    if [ $rc -eq 0 ] && ! echo "$out" | grep -q "^VIOLATION"; then line="$s on $c: QUIET"
    else line="$s on $c: ALARM (rc=$rc) $(echo "$out" | grep -A1 '^VIOLATION' | head -4 | tr '\n' ' ' | cut -c1-500) $(echo "$out" | tail -1 | cut -c1-150)"; fi
    echo "$line" | tee -a /verif/seeded/BENIGN_RESULTS.txt
  done
  git -C $SR checkout -q -- .
done
