#!/bin/bash
# Independent re-check of every compiled property file (and everything it depends on) with coqchk; prints the context summary
# (axioms, type-in-type, unsafe fixpoints, assumed positivity).  Long (minutes); not part of the per-change checks.
cd "$(dirname "$0")/../coq" || exit 2
mods=$(ls Props/Properties_C??.v Props/Properties_impl.v | sed 's|/|.|; s|\.v$||; s|^|LLB.|')
timeout 7200 coqchk -o -silent -Q . LLB $mods 2>&1 | tail -20
