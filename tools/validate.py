#!/opt/veriftools/pyvenv/bin/python3
import json, jsonschema, glob, sys, os
R = os.path.dirname(os.path.dirname(os.path.abspath(__file__)))
jsonschema.validate(json.load(open(R + '/MANIFEST.json')), json.load(open('/root/.vp/MANIFEST.schema.json')))
es = json.load(open('/root/.vp/EVIDENCE.schema.json'))
for f in sorted(glob.glob(R + '/evidence/*.json')):
    jsonschema.validate(json.load(open(f)), es)
    print('ok', os.path.basename(f))
print('manifest ok')
