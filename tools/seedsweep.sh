#!/bin/bash
# tools/seedsweep.sh [seed-dir-names...] : runs the checks against seeded changes WITHOUT touching /repo or /verif/_work:
# a private copy of /verif under /tmp/verif_seed and a private worktree /tmp/wt/seedrepo of /repo HEAD (VERIF_REPO).
# For each seed: apply patch, run the check of its property (+ extra checks named in seeded/<seed>/also), undo. Results -> seeded/RESULTS.txt
set -u
SR=${SEED_REPO:-/tmp/wt/seedrepo}; VS=${SEED_VERIF:-/tmp/verif_seed}   # set both to private paths to run several sweeps at once
mkdir -p /tmp/wt
if [ ! -d $SR ]; then git -C /repo worktree prune; git -C /repo worktree add --detach $SR HEAD > /dev/null; fi
git -C $SR checkout -q -- . ; git -C $SR checkout -q --detach $(git -C /repo rev-parse HEAD)
rsync -a --delete --exclude _work --exclude .git --exclude replays /verif/ $VS/
mkdir -p $VS/_work
seeds="$@"; [ -z "$seeds" ] && seeds=$(ls /verif/seeded | grep -E '^C[0-9]+-[0-9]+$')
for s in $seeds; do
  id=${s%%-*}; P=/verif/seeded/$s/patch.diff
  checks="$id"; [ -f /verif/seeded/$s/also ] && checks="$checks $(cat /verif/seeded/$s/also)"
  git -C $SR apply $P || { echo "$s: patch does not apply" | tee -a /verif/seeded/RESULTS.txt; continue; }
  for c in $checks; do
    out=$(cd $VS && VERIF_REPO=$SR timeout 3000 tools/check $c --tier ${TIER:-quick} 2>&1); rc=$?
    if [ $rc -eq 1 ] && echo "$out" | grep -q "^VIOLATION property=$c"; then
      keys=$(echo "$out" | grep '^VIOLATION' | sed -E 's|.*replays/[A-Za-z0-9]+_(.*)_[0-9]+\.json(.*)|\1\2|' | sed 's/ no-failing-input-found/(no-input)/' | tr '\n' ',' | cut -c1-300)
      line="$s on $c: DETECTED $(echo "$out" | grep -A1 '^VIOLATION' | head -2 | tr '\n' ' ' | cut -c1-400) ALLKEYS=$keys"
    else line="$s on $c: MISSED (rc=$rc) $(echo "$out" | tail -1 | cut -c1-200)"; fi
    echo "$line" | tee -a /verif/seeded/RESULTS.txt
  done
  git -C $SR checkout -q -- .
done
