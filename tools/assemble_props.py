#!/usr/bin/env python3
# Assembles coq/Props/Properties_C17.v and Properties_C19.v from the per-area property files (statements only; each theorem keeps its
# `exact` proof and its Print Assumptions).  Run after any of the source files changed; the results are committed.
import re, os
P = os.path.join(os.path.dirname(os.path.dirname(os.path.abspath(__file__))), "coq", "Props")

def split(path):
    t = open(path).read()
    i = t.index("Local Open Scope N_scope.") + len("Local Open Scope N_scope.")
    head, body = t[:i], t[i:]
    blocks, cur = [], ""
    for line in body.splitlines(True):
        cur += line
        m = re.match(r"Print Assumptions\s+([A-Za-z0-9_']+)\.", line)
        if m:
            blocks.append((m.group(1), cur)); cur = ""
    return head, blocks, cur

def imports(head):
    h = re.sub(r"\(\*.*?\*\)", "", head, flags=re.S)
    return h.replace("Local Open Scope N_scope.", "").strip()

def module_wrap(name, head, blocks, pred):
    sel = [b for n, b in blocks if pred(n)]
    return "Module %s.\n%s\nLocal Open Scope N_scope.\n%s\nEnd %s.\n" % (name, imports(head), "".join(sel), name)

lex_h, lex_b, _ = split(os.path.join(P, "Properties_c17lex.v"))
ev = open(os.path.join(P, "Properties_C17eval.v")).read()
out = "(* C17 - assembled by tools/assemble_props.py from Properties_C17eval.v (manifest evaluation) and the c17_* theorems of\n   Properties_c17lex.v (keywords, bytes 0x80-0xFF, shell quoting).  Statements only. *)\n"
out += ev + "\n(* ---------------------------------------------------------------- lexer and shell-quoting part *)\n"
out += module_wrap("Lex", lex_h, lex_b, lambda n: n.startswith("c17_"))
par_h, par_b, _ = split(os.path.join(P, "Properties_ninjaparse.v"))
out += "\n(* ---------------------------------------------------------------- parser part (bytes -> declarations; composition with the loader) *)\n"
out += module_wrap("Parse", par_h, par_b, lambda n: True)
open(os.path.join(P, "Properties_C17.v"), "w").write(out)
print("C17:", len(re.findall(r"^\s*Theorem ", out, re.M)), "theorems")

bf = open(os.path.join(P, "Properties_C19bfile.v")).read()
out = "(* C19 - assembled by tools/assemble_props.py from Properties_C19bfile.v (build-description loader, dependency-file parsers) and the\n   c19_* theorems of Properties_c17lex.v (Ninja lexer: termination, bounds, tiling, EndOfFile).  Statements only. *)\n"
out += bf + "\n(* ---------------------------------------------------------------- Ninja lexer part *)\n"
out += module_wrap("Lex", lex_h, lex_b, lambda n: n.startswith("c19_"))
out += "\n(* ---------------------------------------------------------------- Ninja parser part: termination, bounds, no silent drop, whole-manifest loading *)\n"
out += module_wrap("Parse", par_h, par_b, lambda n: True)
open(os.path.join(P, "Properties_C19.v"), "w").write(out)
print("C19:", len(re.findall(r"^\s*Theorem ", out, re.M)), "theorems")
